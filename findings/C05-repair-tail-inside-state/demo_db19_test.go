package db19

import (
	"os"
	"testing"
)

// the file ends inside a state record (crash while the state was being written), a few bytes
// before a page boundary: the scanner reads the second marker of the record beyond the end of the file
func TestZZRepairTailInsideState(t *testing.T) {
	f := t.TempDir() + "/cut.db"
	data := make([]byte, 4096)
	copy(data, magic)
	for i := len(magic); i < 4086; i++ {
		data[i] = byte(i%250 + 1)
	}
	copy(data[4086:], magic1) // 8 of the 10 remaining bytes: the start of a state record, cut off
	data[4094], data[4095] = 1, 2
	if err := os.WriteFile(f, data, 0o644); err != nil {
		t.Fatal(err)
	}
	defer func() {
		if e := recover(); e != nil {
			t.Errorf("Repair crashed instead of reporting a result: %v", e)
		}
	}()
	msg, err := Repair(f, nil)
	t.Logf("Repair: msg=%q err=%v", msg, err)
}
