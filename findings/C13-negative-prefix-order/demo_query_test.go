package query

import (
	"testing"

	"github.com/apmckinlay/gsuneido/db19"
	"github.com/apmckinlay/gsuneido/db19/stor"
)

func TestZZNegOrder(t *testing.T) {
	st := stor.HeapStor(8192)
	st.Alloc(1)
	db := db19.CreateDb(st)
	db19.StartConcur(db, 50*1000000)
	defer db.Close()
	doAdmin(db, "create negs (n) key(n)")
	for _, n := range []string{"-1200", "-1234", "-1250", "-12", "-12.5", "5"} {
		act(db, "insert { n: "+n+" } into negs")
	}
	t.Log("sort n        :", queryAll(db, "negs sort n"))
	t.Log("where n < -1210:", queryAll(db, "negs where n < -1210"))
	t.Log("where n > -1240 and n < -1100:", queryAll(db, "negs where n > -1240 and n < -1100"))
	t.Log("where n >= -12.2 and n < 0:", queryAll(db, "negs where n >= -12.2 and n < 0"))
}
