package core

import (
	"testing"

	"github.com/apmckinlay/gsuneido/util/dnum"
)

func TestZZPackOrder(t *testing.T) {
	vals := []string{"-.1234", "-.12", "-12", "-12.5", "-1200", "-1234", ".12", ".1234", "12", "1234", "-1e-5", "-1.5e-5"}
	for _, a := range vals {
		for _, b := range vals {
			x, y := SuDnum{Dnum: dnum.FromStr(a)}, SuDnum{Dnum: dnum.FromStr(b)}
			px, py := Pack(x), Pack(y)
			c := x.Compare(y)
			pc := 0
			if px < py {
				pc = -1
			} else if px > py {
				pc = 1
			}
			if c != pc {
				t.Errorf("%s vs %s: Compare %d, packed order %d (%x vs %x)", a, b, c, pc, px, py)
			}
		}
	}
}
