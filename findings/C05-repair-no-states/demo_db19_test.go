package db19

import (
	"os"
	"testing"
)

// a database file that contains the header but no state record (the process died after the
// file was created and before the first persist, or the tail with the only state was lost)
func TestZZRepairNoStates(t *testing.T) {
	f := t.TempDir() + "/nostate.db"
	data := append([]byte(magic), make([]byte, 100)...)
	for i := len(magic); i < len(data); i++ {
		data[i] = byte(i)
	}
	if err := os.WriteFile(f, data, 0o644); err != nil {
		t.Fatal(err)
	}
	defer func() {
		if e := recover(); e != nil {
			t.Errorf("Repair crashed instead of reporting a result: %v", e)
		}
	}()
	msg, err := Repair(f, nil)
	t.Logf("Repair: msg=%q err=%v", msg, err)
}
