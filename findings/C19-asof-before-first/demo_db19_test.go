package db19

import (
	"testing"

	"github.com/apmckinlay/gsuneido/db19/stor"
)

func TestZZStateAsofBeforeFirst(t *testing.T) {
	st := stor.HeapStor(8192)
	st.Alloc(1)
	db := CreateDb(st)
	defer db.Close()
	db.PersistSync()
	db.PersistSync()
	s1 := db.GetState()
	first := PrevState(db.Store, 0)
	if first == nil {
		t.Fatal("no persisted state")
	}
	for p := first; p != nil; p = PrevState(db.Store, p.Off) {
		first = p
	}
	t.Logf("latest persisted state Off=%d Asof=%d; earliest state Off=%d Asof=%d", s1.Off, s1.Asof, first.Off, first.Asof)
	st0 := stateAsof(asofArgs{store: db.Store, asof: 1}) // a time before the first state
	t.Logf("asof(before first): Off=%d Asof=%d", st0.Off, st0.Asof)
	if st0.Off != first.Off {
		t.Errorf("state shown for a time before the first state has Off=%d, its own offset is %d", st0.Off, first.Off)
	}
	if n := NextState(db.Store, st0.Off); n != nil && n.Asof == st0.Asof && n.Off != st0.Off {
		t.Errorf("NextState from it returns the same state again (Off=%d)", n.Off)
	}
}
