#!/usr/bin/env python3
# splices tools/design_asbuilt.md (section 0) into DESIGN.md between "## 0. As built" and "## 1."
d=open('/verif/DESIGN.md').read()
a=d.index('## 0. As built'); b=d.index('## 1. What is being built')
ab=open('/verif/tools/design_asbuilt.md').read(); ab=ab[ab.index('## 0. As built'):]
sep='\n---------------------------------------------------------------------------\n\n'
open('/verif/DESIGN.md','w').write(d[:a]+ab.rstrip('\n')+'\n'+sep+d[b:])
