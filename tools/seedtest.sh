#!/bin/bash
# tools/seedtest.sh <prop> <seeddir> <pkgdir> : confirm a seeded change (demo fails with / passes without,
# existing tests of the package pass with it) in a scratch worktree, then run the property's check on /repo with it.
set -u
P=$1; D=$2; PKG=$3
export GOFLAGS=-mod=mod GOPROXY=off
WT=/tmp/svt_$P
git -C /repo worktree remove --force $WT >/dev/null 2>&1; rm -rf $WT
git -C /repo worktree add -q --detach $WT HEAD || exit 2
mkdir -p /tmp/svt_cert && [ -f /tmp/svt_cert/server.crt ] || openssl req -x509 -newkey rsa:2048 -nodes -keyout /tmp/svt_cert/server.key -out /tmp/svt_cert/server.crt -days 2 -subj "/CN=localhost" >/dev/null 2>&1
cp /tmp/svt_cert/server.* $WT/dbms/ 2>/dev/null
cd $WT
echo "--- demo WITHOUT the change (must pass)"
cp $D/demo_test.go $PKG/zz_seed_demo_test.go
go test -vet=off -count=1 -run 'Seed|Demo|seed|demo' ./$PKG/ 2>&1 | tail -2
rm $PKG/zz_seed_demo_test.go
git apply $D/patch.diff || { echo "patch does not apply"; exit 2; }
echo "--- existing tests WITH the change (must pass)"
go test -vet=off -count=1 ./$PKG/ 2>&1 | tail -2
echo "--- demo WITH the change (must fail)"
cp $D/demo_test.go $PKG/zz_seed_demo_test.go
go test -vet=off -count=1 -run 'Seed|Demo|seed|demo' ./$PKG/ 2>&1 | tail -4
cd /; git -C /repo worktree remove --force $WT
echo "--- check on /repo with the change applied"
if [ -n "$(git -C /repo status --porcelain --untracked-files=no)" ]; then echo "REFUSING: /repo has uncommitted changes"; exit 2; fi
git -C /repo apply $D/patch.diff && (cd /verif && ./bin/govc check -prop $P -no-evidence | grep -E "VIOLATION|^govc|UNSUP|KNOWN" | cut -c1-170)
git -C /repo checkout -- .
