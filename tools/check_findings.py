#!/usr/bin/env python3
# tools/check_findings.py: every obligation named in known_findings.jsonl must still be generated on the unchanged
# tree (be in the property's baseline), otherwise a return of that defect would go unnoticed. Exceptions, by
# construction: an obligation that only exists in violating code (C26 OpAdd#overflow after the refactor to addInt,
# C41 permission preconditions) and the `known` finding (excluded from the baseline on purpose).
import json, glob, sys
base = {}
for f in glob.glob('/verif/baseline/*.obligations'):
    p = f.split('/')[-1].split('.')[0]
    base[p] = set(l.split()[-1] for l in open(f) if l.strip() and not l.startswith('#'))
only_in_violating_code = {"core.OpAdd#overflow.0", "dbms.cmdToken#pre.dbms.Token.0"}
bad = 0
for l in open('/verif/known_findings.jsonl'):
    l = l.strip()
    if not l or l.startswith('#'):
        continue
    k = json.loads(l)
    ob, p = k['obligation'], k['property']
    if k['status'] == 'known' or ob in only_in_violating_code:
        continue
    if ob not in base.get(p, set()):
        print("ABSENT", p, ob)
        bad += 1
print("findings checked, absent:", bad)
sys.exit(1 if bad else 0)
