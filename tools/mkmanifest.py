#!/usr/bin/env python3
"""Generates /verif/MANIFEST.json from the tables below (kept here so the
manifest is always valid and the not_applicable list is always complete)."""
import json, os, subprocess, sys

HERE = os.path.dirname(os.path.dirname(os.path.abspath(__file__)))

TECH = "contract-based deductive verification: weakest-precondition VCs generated from go/ssa of the real functions (govc), contracts in verif_contracts.go, discharged by z3/z3-new/cvc5"

# claimed properties: id -> (level text, level_note, design_ref)
CLAIMED = {
 "C39": (
  "Deductive proof, for all inputs and all loop iterations, of the contracts of util/ordset's leaf node (binary search result characterisation; insert: index-wise whole-view post-condition, representation invariant preserved, frame, no run-time panic, termination of the search loop). Top-level post-conditions are taken from the property statement (set semantics of insert/membership).",
  "Also proved: ordset tree level searches, Contains, AnyInRange and treeNode.insert (sortedness), and util/ranges at leaf level: searchBinary (first lower end >= val), leafSlot.contains, overlap, merge (overlapping ranges become their union, others untouched), leafNode.insert (existing only when a neighbouring range contains the new one, overflow only when full, otherwise inserted in order with all other ranges kept), the tree level searches, and Ranges.Contains over the whole set (single leaf or one level tree of leaves with disjoint ordered ranges): no false negatives and no false positives. Scope: NOT covered: ordset Set.Insert/split and Ranges.Insert with the coalescing iterator and split (did not discharge / multi-leaf iterator), sortlist, bloom, roaring, shmap, lrucache, cache. Strings are abstracted as a totally ordered sort (sound for comparison-only code). Sequential semantics only.",
  "DESIGN.md §4 C39"),
 "C38": (
  "Deductive proof, for all byte strings, of the reference semantics of util/ascii (exact byte sets, ToLower/ToUpper, Digit) and util/str (CmpLower = lexicographic comparison of lower-cased strings, EqualCI, ToLower/ToUpper pointwise with input unmodified, CommonPrefix/CommonPrefixLen maximality, Subi/Subn, Cut), including index-bounds safety, overflow freedom and termination of every loop.",
  "Scope: ascii.* and the str helpers listed in evidence; util/tr (translation sets), str.Join/Split (delegate to strings.*) are NOT covered yet. Assumed library contracts: cmp.Compare, strings.IndexByte, hacks.BStoS (unsafe). Sequential semantics.",
  "DESIGN.md §4 C38"),
 "C11": (
  "Deductive proof of the per-key combination algebra of index buffers: ixbuf.Combine against its five-row table for all 64-bit operands (bit-vector semantics), the lemma that Combine(o1,o2) applied to any key state equals applying o1 then o2 (and panics only for sequences with no sequential meaning), and the binary searches/Lookup over sorted chunk lists (result characterisation over the whole buffer, bounds safety, termination).",
  "Scope: Combine, the combine_is_sequential/combine_oldoff lemmas, search, searchChunks, (*ixbuf).search, Lookup, goal. NOT covered: the k-way Merge/passthru and Insert with chunk splitting (stated unverified). Precondition: operands use only the low 40 offset bits and the top two flag bits (bits 40..61 clear). Strings abstracted as a totally ordered sort. log.Println/dbg.PrintStack assumed effect-free.",
  "DESIGN.md §4 C11"),
 "C14": (
  "Deductive proof of binary encoding round trips: stor.Writer.Put1..Put5/PutStr append exactly the little-endian bytes (and panic exactly outside the range), Reader.Get1..Get5/GetStr invert them (arithmetic lemmas putget2..5), 5-byte small offsets round trip for all offsets < 2^40, and the zig-zag base-128 varints of dbms/mux: PutInt64 emits exactly the closed-form encoding and GetInt64 decodes it back for ALL int64 (bit-vector semantics, loops completely unrolled with unwinding obligations), with frames and bounds safety.",
  "Scope: functions listed in evidence. NOT covered yet: core.Record/RecordBuilder layout, PutStrs/GetStrs, the WriteBuf flush path (Write1 is an assumed contract over a ghost output stream: the network write is trusted), pack ints. Object sizes assumed <= 2^48 bytes (Go runtime maxAlloc).",
  "DESIGN.md §4 C14"),
 "C17": (
  "Deductive proof of the checker message queue's selection logic as atomic steps: Put appends exactly one element at the end and leaves the rest untouched; Get returns an element that is the oldest of its transaction (per-transaction FIFO: no earlier queued element has the same tran), whose priority is maximal among all oldest-of-transaction elements, the earliest among those of maximal priority, and removes exactly that element preserving the order of the others (exactly-once delivery); isOldest is proved against its definition. Loops carry invariants and variants; all bounds obligations discharged.",
  "Each method body runs under pq.lock and is verified as one sequential atomic step (sync.Mutex mutual exclusion trusted). Put/Get are verified from states where their guard holds (queue not full / not empty): the Cond.Wait loop is unrolled once and shown not to be entered; blocking/wake-up, fairness and progress are NOT covered. slices.Delete is an assumed library contract. The history-level statement (a commit is never processed before that transaction's earlier messages) follows from per_tran_fifo + Put-appends-at-end by induction over histories, which is argued, not machine-checked. Priorities chosen in db19/checkco.go are not covered.",
  "DESIGN.md §4 C17"),
 "C27": (
  "Deductive proof over util/dnum for all inputs: the representation invariant (sign in -2..2, zero/infinity canonical, 16-digit maximised coefficient) is assumed on every Dnum parameter and PROVED on every result of New, FromInt, Neg, Abs, Add, Sub, add, Mul, Div, Frac, integer, Trunc, Round, Inf, Raw; New normalises exactly when no digit is dropped, rounds within one unit of the last kept digit otherwise, overflows to infinity and underflows to zero (loop completely unrolled, unwinding obligation discharged); ilog10/maxShift against the power-of-ten table; Compare is a total order (totality, antisymmetry, transitivity, Compare==0 iff Equal as lemmas over the contracts); FromInt/ToInt64 exact and inverse for |n| <= 10^16-1; align's scaling/rounding formula; sign/zero/infinity tables of Add, Mul, Div; no index out of range, no unintended integer overflow, no division by zero.",
  "Assumed: div128 (Knuth algorithm D) only by a range bound on its result; bits.LeadingZeros64 by its library contract; package tables pow10/halfpow10/Zero/One/... are constants (checked mechanically: no store outside their initialiser). NOT covered: the +-1 ulp accuracy of Add/Mul/Div results beyond the stated formulas, FromFloat/ToFloat/Format (floating point), FromStr/String parsing. Two genuine defects found by these obligations were fixed (see known_findings.jsonl).",
  "DESIGN.md §4 C27"),
 "C26": (
  "Deductive proof that the integer fast paths of OpAdd, OpAdd1, OpSub, OpMul, OpDiv and OpUnaryMinus return the exact integer result when it fits int64 and otherwise take the decimal path (no wrap-around), for all operands in the int64 range and every pair of integer representations (small int / SuInt64); the overflow-checked helpers addInt/subInt/mulInt are proved against mathematical integer arithmetic with exact 64-bit wrapping semantics; IntVal/Int64Val/SuIntToInt preserve the value; numeric Equal/Compare across representations compare integers exactly (shared with C28).",
  "The *smi representation (a pointer into a static table, value recovered by unsafe pointer arithmetic) is abstracted by an uninterpreted value function with the assumed contracts SuInt(n)/toInt. Value.ToDnum/ToInt/Type are assumed interface contracts (including the closed-world fact that only *smi, SuInt64 and SuDnum report types.Number). The decimal path itself is covered by C27 only as far as dnum's contracts go. OpMod, shifts and bit operations, string-to-number parsing are NOT covered. The wrap-around defect found by these obligations was fixed (known_findings.jsonl).",
  "DESIGN.md §4 C26"),
 "C28": (
  "Deductive proof for the scalar numeric classes: class order (Order: boolean < number < string < date); Equal across *smi / SuInt64 / SuDnum is exact integer equality when both sides are integers and field-wise equality between decimals; Equal implies equal Hash for every pair of numeric representations (integer-valued decimals hash like integers); Compare returns +-2 across classes, the exact integer order within integers and between an integer and an exactly-integer decimal, hence agrees with Equal; symmetry lemma for int/decimal equality.",
  "Scope: numbers (three representations), class order of booleans/strings/dates via Order. NOT covered: SuStr/SuConcat/SuExcept comparisons, dates/timestamps order (see C33), objects and records (deepCompare, recursive), member lookup in SuObject itself (hash map). The corner of decimals with exponent 19 and coefficient >= 9223372036854775 (which ToInt64 rejects although some fit int64) is excluded by the contracts and stated as such. Assumed: same interface contracts and *smi abstraction as C26. Two genuine defects found here were fixed (known_findings.jsonl).",
  "DESIGN.md §4 C28"),
 "C41": (
  "Authorization as a ghost permission, discharged deductively over the real server code: every protected operation (all IDbms methods of DbmsLocal outside the allowed set, and the package-level Token/kill/connections) requires the permission 'authz', which no command handler can establish; all 40 protocol command handlers and the session helpers are symbolically executed (calls by contract, everything else havoced) and every call they make is shown not to need the permission, i.e. they reach protected state only through ss.sc.dbms, where every refused DbmsUnauth method is proved never to return normally (and to call nothing); cmdAuth leaves the connection wrapped unless authentication succeeded; the nonce is single-use (cleared on every attempt); AuthUser rejects the empty nonce.",
  "Permission mode ('nosafety'): only permission preconditions, post-conditions and refusals are obligations; run-time safety of the handlers is not checked here. Assumed: the DbmsLocal methods and Token/kill/connections are classified by hand from the property statement (allowed: Auth, Nonce, SessionId, Libraries, LibGet, end of session); DbmsUnauth.Use/Unuse/Close delegate but no protocol command reaches them (an interface-level precondition keeps it so); AuthToken (token single use), crypto/rand, sha1, the users table lookup and the rate limiter are trusted; mutual exclusion of sessions and interleavings with other connections are not modelled; TLS not covered. The wrapper bypass of cmdToken/cmdKill/cmdConnections found by these obligations was fixed.",
  "DESIGN.md §4 C41"),
 "C12": (
  "Deductive proof, for all byte strings, of the composite-key encoding primitives of db19/index/ixkey: encode appends an escape image in which every zero byte is followed by a one (so a field contains no separator 0,0 and never ends in 0), preserves the buffer prefix and copies zero-free fields verbatim; Encode; Encoder.Add places the separator 0,0 exactly between fields; Encoder.String removes only trailing separators (an even number of zero bytes) and nothing else; HasPrefix is byte-wise prefix ending at a field boundary; SplitPrefixSuffix returns a prefix and a suffix of the key, the prefix without trailing separators, never indexing out of range; Cksize/Cklen panic exactly above the size limit. Loop invariants, frames, bounds and termination discharged.",
  "Scope: the unambiguity half (escaping/separators/trimming/prefix tests). NOT covered yet: the order-preservation lemma (lexicographic order of keys = order of value tuples), Spec.Key/Spec.Compare (need Record.GetRaw), JoinPrefixSuffix, Decode1, TruncFunc, rangeEnd. Assumed: strings.IndexByte/HasSuffix/Contains, hacks.BStoS (unsafe, buffer not modified afterwards), fmt.Sprintf effect-free.",
  "DESIGN.md §4 C12"),
 "C33": (
  "Deductive proof of the date arithmetic that is not delegated to Go's time package: the seven field accessors against the bit layout; NewDate/DateTime pack and validate; the packing is exact and positional for all valid field values (bit-vector lemmas), and the unsigned order of the packed (date, time) pair is the lexicographic (chronological) order of the fields (order lemmas), so SuDate.Compare / CompareSuTimestamp are chronological (with the class order for other values and the extra byte last); julianDayNumber equals the closed formula and the lemmas jdn_next_day / jdn_next_month / jdn_next_year show it is a strictly consecutive day count on the proleptic Gregorian calendar (month lengths, 4/100/400 leap rule) for years 0..3000, hence MinusDays counts calendar days; AddMs fast path changes only the millisecond field and yields a later date; WithoutMs; timeAsMs; DateFromLiteral/nsub never index out of range.",
  "Assumed and listed: Go's time package (valid's day-of-month check, Plus/NormalizeDate carry arithmetic, WeekDay, UnixMilli) behaves as the proleptic Gregorian calendar; the closed-world fact that only SuDate and SuTimestamp report types.Date; strings.IndexRune/strconv.Atoi library contracts. DateFromLiteral requires a non-empty string (both callers guarantee it). ParseDate/Format (pattern driven) and the String()/literal round trip are NOT covered.",
  "DESIGN.md §4 C33"),
 "C34": (
  "Deductive proof of the two lock-protected timestamp steps as atomic transitions: server side db19.Timestamp returns the cursor and strictly advances it (to +5 ms when the millisecond field is below 500, else +1 ms, always a valid later date), so the returned value and the window it reserves lie below every later value; client side Thread.Timestamp preserves the state invariant (limit in {0,5,256}, valid base, millisecond headroom), on the fast path returns either the previous value plus exactly 1 ms (at most 4 times per fetched base, staying on AddMs's fast path) or (base, extra) with extra = 1..255 strictly increasing and never 0, and otherwise fetches a fresh base and resets the block.",
  "Each function body runs under its tsLock and is verified as one sequential atomic step (sync.Mutex trusted); the induction over arbitrary sequences of these steps (uniqueness across all clients: windows are disjoint because the server cursor passes every reserved window) is argued from these post-conditions, not machine-checked. Assumed: the client's th.Dbms().Timestamp() returns what the server's Timestamp returned (protocol, C40 territory); the ticker's 'only forwards' update and tsExpire run in goroutines and are not modelled; Now() and Go's time arithmetic (Plus) trusted.",
  "DESIGN.md §4 C34"),
 "C31": (
  "Deductive proof about string literals in the lexer (shared by the language and query compilers): quotedString and rawString return a String token only when the closing quote was actually found (the byte before the final position is the quote), and otherwise return the Error token with the position at end of input; the position never moves backwards or outside the source; rawString's text is exactly the bytes between the back quotes; read/peek/doesc/digit are proved against their definitions (NUL mapped to 0xff, escapes consume at most 3 more bytes or nothing). Loops carry invariants, frames and variants.",
  "Scope: the 'unterminated literal is an error' half and the byte-level scanning of literals. NOT covered: the full display/parse round trip (core.escape vs doesc form by form), numbers, dates (see C33) and containers. strings.Builder/strings.Clone are assumed library contracts. The unterminated-literal defect found by the 'terminated' obligation was fixed.",
  "DESIGN.md §4 C31"),
 "C32": (
  "Deductive proof of totality and progress of the lexer: for every source string, next() and every scanning helper it reaches (read, peek, match, matchOneOf, matchWhile, matchWithUnderscores, matchIdentTail, nonWhiteRemaining, whitespace, lineComment, spanComment, rawString, quotedString, doesc, number, identifier, Next) never index or slice out of range (527 obligations), keep 0 <= position <= len(source), report Item.Pos = starting position, return Eof exactly when called at the end of the source and otherwise strictly advance the position - so token positions strictly increase and scanning terminates; every loop has a proved variant.",
  "Function-valued parameters (IsDigit, IsHexDigit, isIdentChar) are modelled as pure predicates that are false for 0 and each call site is obliged to pass such a function; the lexer's keyword callback and intern.String/strings.ReplaceAll are assumed effect-free. Sources are assumed shorter than 2^31 bytes (Item.Pos is int32). NOT covered: the parser (recursive descent reporting errors by panic), the 'tokens tile the source' text equality for processed tokens, Ahead/AheadSkip buffering.",
  "DESIGN.md §4 C32"),
 "C10": (
  "Deductive proof at the level of one stored btree node: for every byte string that satisfies the stated well-formedness predicate of leaf nodes (count, prefix length, per entry a 16 bit suffix position and 40 bit record offset, end position, prefix, contiguous suffixes - every entry's suffix lies between header+prefix and the node size) and of tree nodes (n keys, n+1 child offsets), the accessors nkeys/noffs/size/offset/key/suffix/prefix never index or slice out of range and return exactly the decoded field (positions, lengths, the 40 bit offset, key = prefix ++ suffix byte for byte), the leaf iterator stays within -1..n, and the binary searches search/seek of leaf and tree nodes stay inside the node on every iteration, return a position in 0..n (a found position is a real entry), and terminate (variants).",
  "Scope: node decoding and in-node search SAFETY only. NOT covered: that search returns the RIGHT position (needs the sortedness invariant and lexicographic string order), the encoder leafBuilder.finishInto (a functional contract was written and did not discharge: removed), leaf insert/update/delete, splitTo, the tree node builders, builder.go (bulk build), merge.go (MergeAndSave), iter.go, rangefrac.go (floats), btree.go Lookup over several levels - i.e. the ordered-map behaviour of a whole tree, which is the body of the property, is not proved. That stored nodes satisfy the well-formedness predicate is an assumption (it is what the unproved encoders must establish). str.HasPrefix assumed.",
  "DESIGN.md §0.3 C10"),
 "C42": (
  "Deductive proof of builtin.Transaction with panics modelled as control flow (the block is Thread.Call, which may return or panic with any value; the deferred function runs on every exit with recover() live): on a normal return of the block form the transaction is ended and Transaction itself did not roll it back; a panic never turns into a normal return (the exception still propagates); when the block threw a value other than BlockReturn the transaction is ended and was not completed by Transaction; when it threw BlockReturn it was not rolled back by Transaction; after ANY exit by panic once the transaction object exists it is ended - including the paths on which Complete or Rollback themselves fail. core.SuTran.Complete/Rollback/Ended are proved against the status field (normal exit: completed / aborted; exit by panic: aborted / not active).",
  "Assumed: Thread.Call (the interpreter running the block) may modify anything, returns or panics, and records in ghost variables whether it panicked and whether with BlockReturn; ITran.Complete/Abort and IDbms.Transaction are effect-free as far as this model goes (what the database does is C01/C03 territory); NewSuTran binds the ghost reference to the new transaction object (modelling device, assumed). Counting is by ghost counters of the Complete/Rollback calls made by Transaction itself (calls inside the block are behind Thread.Call). 'Completed exactly when...' is therefore: ended on every exit + the right one of Complete/Rollback attempted; that a successful Complete commits is the dbms's business. Contract mode nosafety (argument indexing). The other block forms (tran.Query block, Cursor) are not covered.",
  "DESIGN.md §0.3 C42"),
 "C44": (
  "Deductive proof about trigger dispatch: (1) the enable count: enabled(table) <=> disabled[table] == 0, DisableTrigger adds exactly one, EnableTrigger removes exactly one and panics instead of going below zero (map-valued state, lock-protected methods verified as atomic steps) - so a trigger is enabled again only after as many enables as disables; (2) call2 (panics as control flow, recover modelled): a disabled trigger is NOT called (no Thread.Call), an enabled one is called exactly once when the trigger function exists and not at all otherwise, an exception thrown by the trigger is never swallowed: it leaves call2 as a panic (wrapped by WrapPanic, which never returns) and a panic can only come from that one call; (3) every row change announces itself: each normal return of UpdateTran.Output (unless the database is marked corrupted), Delete, and update (unless corrupted or the row is unchanged) has gone through CallTrigger at least once - exactly once for Output - AFTER the change was applied, with cascaded deletes going through Delete again; CallTrigger calls the trigger at most once and does not swallow its exception, so the change is not committed when the trigger throws (the panic propagates to the transaction's caller).",
  "Scope: dispatch and counting. Thread.Call (running the trigger code), Global.FindName, WrapPanic, the checker, index updates and everything else Output/Delete/update call are assumed or havoced ('nosafety' mode: no run-time panic freedom claimed for them); MakeSuTran is an injected function variable without contract, so 'the enable count is unchanged between CallTrigger's entry and call2's test' is not proved. That the old/new rows passed to the trigger are the right ones, fkeyUpdateCascade's use of update, and that the trigger runs inside the changing transaction object are by reading, not proved. gDispatch/gCalls are ghost counters defined by assumed clauses (modelling devices).",
  "DESIGN.md §0.3 C44"),
 "C05": (
  "Deductive proof about repair.search, the function that picks the state a damaged database is cut back to: for every sequence of state offsets the scanner can deliver (modelled by an uninterpreted sequence scanOff(k) handed out incrementally, never shrinking) and every outcome of the per-state check (uninterpreted predicate goodAt), search never indexes outside the offsets found - also when there are none - , returns (0,0,nil) when nothing is good, and otherwise returns a state that passed the check together with its own offset, whose more recent neighbour was checked and is bad (the result of the exponential + binary search under the documented assumption that good and bad states are not interleaved); both loops have invariants, the binary search a variant, no arithmetic overflow (skip doubling).",
  "Scope: the selection logic of search only. The scanner goroutine, getUpTo's locking, check/checkState (checksum verification of metadata, btree nodes and records), fix/truncate, readTail and MmapStor's trailing zero stripping are assumed or not covered; crash points and file contents are not enumerated (the property's quantifier over crash points is not expressible as a contract). The deferred scnr.close() is executed at normal exits only. One genuine defect found by the bounds obligation was fixed (Repair crashed with index out of range [-1] on a file without any state).",
  "DESIGN.md §0.3 C05"),
 "C19": (
  "Deductive proof of the state navigation used by historical reads: (1) Stor.LastOffset/FirstOffset (exact 64-bit bit-vector arithmetic, loops with invariants and variants): a non-zero result is an occurrence of the marker that lies completely below / at-or-after the given offset, inside one mapped chunk, with all index and slice bounds in range, plus the lemma relating chunk/position to the shift/mask addressing of Data; (2) over readState's result named by uninterpreted functions of the offset: stateAsof returns a valid state whose Off is the offset it was read from and whose time is at or before the requested time unless the search reached the start of the store (then it is the earliest state); NextState/PrevState return nil or a valid state strictly after / before the given offset, with its own offset; readState only accepts records whose metadata offsets lie below the record.",
  "Scope: per-call. readState's determinism (the store is append-only) is the assumption behind the 'defines' clause; the byte-level layout written by writeState vs read by readState, cksum, meta.ReadMeta, the stateCache and ReadTran.Asof are assumed or not covered; run-time panic freedom of the db19 functions is not claimed (mode 'nosafety': a stray marker within 38 bytes of a chunk end would make readState slice out of range - noted, not reachable from valid stores). bytes.Index/LastIndex are assumed library contracts (soundness half). One genuine defect found by stateAsof#post.consistent was fixed (Off=0 for times before the first state).",
  "DESIGN.md §0.3 C19"),
 "C08": (
  "Deductive proof of the two foreign key refusal decisions over an abstraction of the index lookups: if UpdateTran.fkeyDeleteBlock returns normally then EVERY foreign key that points at the index either cascades the kind of change being made (delete / key update) or has no referencing source rows (loop invariant over FkToHere, quantified post-condition taken from the property statement); if fkeyOutputBlock returns normally then the index has no foreign key, or the key value is empty, or the target row exists.",
  "Scope: the block/allow decision logic only. fkeyDeleteExists/fkeyOutputExists (the index range lookups, rangeEnd) are abstracted by uninterpreted predicates through assumed contracts; Spec.Key/Trunc/Encodes, ixkey.Encode, Meta.GetRoSchema are assumed effect-free; run-time panic freedom is not claimed here (contract mode 'nosafety': bounds depend on schema metadata consistency, C21). The call sites are under contract too (loop invariants over a ghost log of the arguments each block function last returned normally for): Delete has made the delete-block check with CascadeDeletes and the record's own key for every index, update the delete-block check with CascadeUpdates and the OLD key plus (unless cascading) the output check on the new record for every index whose key changes, Output the output check for every index - each before any index is changed. NOT covered: the cascade loops (fkeyDeleteCascade/fkeyUpdateCascade), rangeEnd, createFkeys/linkFkeys, and the committed-state invariant under concurrency (C01/C07). One genuine defect found by the loop invariant obligation was fixed (cascade update let referenced rows be deleted).",
  "DESIGN.md §0.3 C08"),
 "C07": (
  "Deductive proof of the duplicate key decision a row change goes through: needsDupCheck is exactly 'primary key, or unique index that is not covered by a key and whose fields are not all empty'; if dupOutputBlock returns normally for an index that needs the check then the transaction's layered view of that index (Overlay.Lookup, see C16) has no row with the new key AND the point read of that key was registered with the conflict checker (the hook that makes a concurrent transaction adding the same key conflict); and at the call sites (loop invariants over a ghost log of dupOutputBlock's arguments): Output has made that check, with the new record and this index's own key and overlay, for every index it has passed - or, for a key with no columns, has refused when the table already has a row - and update has made it for every index whose key changes, with the NEW key, before any index is changed.",
  "Scope: the sequential decision and its registration. The concurrent half of the property - that the registered read makes the checker abort one of two transactions adding the same key (Check.Output/Read, C01) - is NOT covered, nor that commit/merge preserve uniqueness (C06), nor uniqueIndexEmpty and Spec.Key (abstracted by uninterpreted functions through assumed contracts), nor that the index lists of schema and info correspond (C21). Overlay.Lookup is used through its proved contract (C16). Run-time panic freedom is not claimed here ('nosafety').",
  "DESIGN.md §0.3 C07"),
 "C13": (
  "Deductive proof about packed scalar values: (1) the fixed-size Encoder/Decoder primitives of util/pack (Put1/2/4, Put, PutStr, Uint16/Uint32/Int32 and their decoders) against exact byte-level contracts incl. capacity, frame and big-endian round-trip/order lemmas; (2) SuDnum.PackSize equals the number of bytes SuDnum.Pack writes (no buffer overrun), Pack writes exactly tag, exponent byte and the base-100 digit pairs of the coefficient with trailing zero pairs dropped and every byte complemented for negative numbers (10 byte-level post-conditions), unpackDnum rebuilds sign/exponent/coefficient from those bytes, with lemmas that the pairs are in 0..99, recombine to the coefficient and that dropped pairs are zero (so unpack inverts pack); (3) ORDER: three lemmas over the proved byte functions show that the byte order of packed decimals equals the decimal order for all non-negative pairs, all mixed-sign pairs and all negative pairs except the prefix class below; (4) packSizeInt against a digit-level definition for all int64 (three loops completely unrolled, unwinding obligations discharged); (5) SuBool, SuStr, SuDate, SuTimestamp Pack/PackSize byte-exact, UnpackDate/UnpackTimestamp inverse on those bytes.",
  "KNOWN FINDING (genuine defect, not repaired, see known_findings.jsonl and findings/C13-negative-prefix-order): two negative numbers whose digit-pair strings are a proper prefix of one another (-12 vs -12.5, -1200 vs -1234) pack in the reverse of their value order; indexes on negative numbers are mis-sorted and range queries return wrong rows. NOT covered: packInt's bytes (only its size; the obligations did not discharge), hence 'equal scalars pack to identical bytes' between SuInt64 and SuDnum is not proved; unpackInt/intable; objects/records (nesting, PackSize2 stack); the value-level composition Unpack(Pack(v)).Equal(v) is argued from the byte-level contracts, not stated as one theorem. Sequential semantics; hacks.BStoS assumed.",
  "DESIGN.md §0.3 C13"),
 "C16": (
  "Deductive proof of the layer-list algebra that the background merge and persist steps are built from: Overlay.UpdateWith (commit) yields exactly the latest layers followed by the transaction's layer, on the latest btree; WithMerged replaces exactly the first 1+n layers by the merge result and keeps the remaining layers in order; WithSaved replaces the base layer by a fresh empty one on the new btree and keeps the rest in order; Mutable; Overlay.Lookup returns what the NEWEST layer that mentions the key says (own mutable layer, then committed layers newest first; a tombstone hides the key, the update flag is stripped) and falls back to the stored btree only when no layer mentions it (loop invariant + variant). Statistics: MergeUpdate.Apply1 replaces the first 1+n per-layer deltas by one (exact sums for n = 0, 1; overflow-free), PersistUpdate.Apply1 folds the base delta into the stored counts exactly and resets it, both keep the remaining deltas in order; every one of these returns fresh slices/objects and provably does not write the previous layer or delta slices (frame obligations), which older states still share.",
  "Scope: the per-call algebra only. NOT covered: that the merged index buffer equals the sequential application of its inputs (ixbuf.Merge, see C11: only Combine and the pass-through guard), btree.MergeAndSave, Meta.LayeredOnto / Apply over the persistent hash trie (hamt) and the exact delta sum for n > 1 (would need recursive spec functions), the scheduling of merge/persist against concurrent commits (UpdateState, merger, checker) - i.e. the property's quantifier over schedules is argued from these per-call facts, not machine-checked. Per-layer lookups are named by uninterpreted functions (ixbuf.Lookup 'defines' its result; the btree lookup is assumed). slc.With/slc.Clone assumed library contracts.",
  "DESIGN.md §0.3 C16"),
 "C18": (
  "Deductive proof (64-bit bit-vector arithmetic, exact) of Stor.Alloc and Stor.extend as ONE thread among arbitrarily many (rely/guarantee): before every call they make - in particular before every atomic operation - the shared cursor state (size, allocChunk, the chunk table) is given arbitrary new values constrained only by the rely clauses. Proved under that interference: the window Alloc returns is exactly the n bytes below the value the atomic counter got from this call's own Add (ghost snapshot taken at that step), it does not straddle a chunk boundary, its chunk was already published (allocChunk) at the instant it was reserved, and the slice has len = cap = n at chunk[offset & (chunksize-1)] of chunk offset>>shift of the current table; extend (under the lock, monitor invariant 'table and allocChunk agree' assumed after Lock and obliged before Unlock) keeps published chunks and leaves allocChunk beyond its argument; Data/offsetToChunk against their definitions incl. bounds. GUARANTEES, obliged across EVERY atomic write of Alloc and extend: the representation invariant holds at every instant (chunksize = 2^shift, every chunk in the table has chunksize bytes, the table is at most one ahead of allocChunk, the cursor is never behind the published chunk), allocChunk moves by at most one, a chunk is published only after it is in the table and without touching size, size is only ever set back to the start of a chunk that is not yet published, the table only grows.",
  "sync/atomic operations are assumed library contracts (one atomic step each). The rely clauses (what other threads may do between two steps) are ASSUMED in each proof; each is the reflexive-transitive closure of guarantee clauses that are machine-checked for the only two writers - that closure step, and the final step from 'distinct Adds give disjoint windows unless size was rewound in between; a rewind goes beyond every chunk published before it; every returned window lies in a chunk published when it was reserved' to 'no two allocations overlap', are by hand (DESIGN.md), not machine-checked. Sequential consistency of the atomics is assumed. Under interference the 3-attempt retry loop can be exhausted: Alloc then panics 'too many retries' (the property's 'fails loudly'; contract maypanic), so termination with a window is not claimed. Assumed bounds: shift < 40, fewer than 999990 chunks, size counter below 2^63+2^62 (no wrap-around). storage.Get is an assumed interface contract (fresh chunk of the configured size). Memory-mapped files, FlushTo/Close (closedSize) not covered.",
  "DESIGN.md §4 C18"),
}

NA = {
 "C01": "serializability quantifies over interleavings and whole histories of checker calls whose state lives in pointer-holding maps; no per-call contract implies it (building blocks ordset/ranges are under C39)",
 "C02": "snapshot stability under concurrent commit/merge/persist is an immutability property of a shared object graph across goroutines; outside function contracts",
 "C03": "atomic visibility of commit is a property of schedules x histories x faults under the state mutex and checker; not a per-call post-condition",
 "C04": "quantifies over arbitrary histories followed by close/reopen with file I/O and HAMT chain writing; no contract within reach",
 "C05": "contracts designed (readState, repair.search) but not yet discharged; crash-point enumeration itself is not expressible",
 "C06": "cross-index invariant over every visible state of every history under background merge; not per-call",
 "C08": "contracts designed (fkey block/cascade decision) but not yet discharged",
 "C09": "iterator-protocol (history) property over a k-way merge of heterogeneous iterators",
 "C10": "contracts designed (btree node layout) but not yet discharged",
 "C11": "contracts designed (ixbuf.Combine algebra) but not yet discharged",
 "C12": "contracts designed (ixkey encoding) but not yet discharged",
 "C13": "contracts designed (pack round trip/order for scalars) but not yet discharged",
 "C14": "contracts designed (records, putget, varints) but not yet discharged",
 "C15": "generic recursive pointer-linked HAMT with generation-based ownership; needs separation/ownership reasoning the generator lacks",
 "C16": "contracts designed (layer/delta algebra) but not yet discharged",
 "C17": "contracts designed (priority queue Get/Put) but not yet discharged",
 "C18": "contracts designed (Stor.Alloc arithmetic) but not yet discharged",
 "C19": "contracts designed (state record round trip, as-of search) but not yet discharged",
 "C20": "whole-database relational equality across file formats built from iterators and I/O",
 "C21": "histories of admin requests over persistent maps of schemas with cross-table links",
 "C22": "quantifies over query programs and optimizer configurations; would need a verified relational-algebra semantics",
 "C23": "contracts of every query operator over interface-typed trees with caching; program-level",
 "C24": "query update statements: program-level over query trees and transactions",
 "C25": "query expressions vs language expressions: program-level; the byte-level sub-claim is C13",
 "C26": "contracts designed (no wrap-around in Op*) but not yet discharged",
 "C27": "contracts designed (dnum invariant/normalisation/order) but not yet discharged",
 "C28": "contracts designed (scalar order, Equal implies same Hash) but not yet discharged",
 "C29": "compiler/interpreter correctness over programs (scoping model); needs a formal semantics of Suneido and a simulation proof",
 "C30": "compiler correctness over programs (constant folding/propagation)",
 "C31": "contracts designed (string literal lexing/escaping) but not yet discharged",
 "C32": "contracts designed (lexer totality/progress) but not yet discharged",
 "C33": "contracts designed (date bit fields, Julian day) but not yet discharged",
 "C34": "contracts designed (timestamp invariant over lock-protected steps) but not yet discharged",
 "C35": "histories of record sets/gets with dependencies populated by running rules in the interpreter",
 "C36": "SuObject combines slice, custom hash map keyed by interface values, copy-on-write and locking; outside the subset",
 "C37": "specification is a reference regex semantics; would need a verified compiler+VM",
 "C38": "contracts designed (ascii/str helpers) but not yet discharged",
 "C40": "protocol equivalence of ~40 commands over a multiplexed connection with concurrent sessions; byte-level encodings are C14",
 "C41": "contracts designed (ghost authorization permission) but not yet discharged",
 "C42": "needs defer/recover exit contracts the generator does not model yet",
 "C43": "data-race freedom over all interleavings; the family is silent on concurrency",
 "C44": "needs defer support and call-site bodies outside the generator's subset",
}

def main():
    sys.path.insert(0, os.path.join(HERE, "tools"))
    try:
        import claims  # optional overrides maintained alongside
        CLAIMED.update(claims.CLAIMED)
        NA.update(getattr(claims, "NA", {}))
    except ImportError:
        pass
    props = [json.loads(l)["id"] for l in open(os.path.join(HERE, "properties.jsonl"))]
    commits = []
    try:
        out = subprocess.run(["git", "-C", "/repo", "log", "--format=%H %s"], capture_output=True, text=True).stdout
        for ln in out.splitlines():
            h, s = ln.split(" ", 1)
            if s.startswith("verif:"):
                commits.append(h)
    except Exception:
        pass
    checks = []
    for pid in props:
        if pid in CLAIMED:
            text, note, ref = CLAIMED[pid]
            checks.append({
                "property_id": pid,
                "quick_cmd": "./check %s --tier quick" % pid,
                "thorough_cmd": "./check %s --tier thorough" % pid,
                "evidence_file": "/verif/evidence/%s.json" % pid,
                "replay_cmd_template": "./check %s --replay {path}" % pid,
                "engine": "govc",
                "level_claimed": {"category": "proof", "text": text, "design_ref": ref},
                "level_note": note,
                "technique": TECH,
            })
    na = [{"property_id": p, "reason": NA[p]} for p in props if p not in CLAIMED]
    man = {
        "version": 1,
        "setup_cmd": "./setup.sh",
        "hooks": {
            "guard": "verif",
            "enable": "go build/list -tags=verif (govc loads /repo with BuildFlags -tags=verif; the only guarded files are comment-only verif_contracts.go files)",
            "baseline_off_cmd": "cd /repo && GOFLAGS=-mod=mod go test -json -vet=off -count=1 -timeout 25m ./...",
            "source_commits": commits,
            "add_only": True,
        },
        "engines": [{"name": "govc", "path": "/verif/govc", "serves_properties": sorted(CLAIMED),
                     "kind_free_text": "deductive verifier for Go written for this task: go/packages+go/ssa front end, contract language in //@ comments, weakest-precondition VC generation with loop invariants/unrolling and modular calls, SMT-LIB back end (z3 4.8.12, z3 5.1.0, cvc5 1.0.x raced), counterexample replay via go test -overlay"}],
        "checks": checks,
        "not_applicable": na,
        "notes": "See DESIGN.md. Every claimed property is decided by discharged proof obligations generated from /repo's current sources; fixed defects are recorded in known_findings.jsonl.",
    }
    json.dump(man, open(os.path.join(HERE, "MANIFEST.json"), "w"), indent=1)
    print("MANIFEST.json: %d checks, %d not_applicable" % (len(checks), len(na)))
    missing = [p for p in props if p not in CLAIMED and p not in NA]
    assert not missing, missing

if __name__ == "__main__":
    main()
