#!/bin/bash
# tools/refresh.sh: run every claimed check (quick) on the current tree, rewrite the evidence files, validate them
cd /verif
ids=$(python3 -c "import json; print(' '.join(c['property_id'] for c in json.load(open('MANIFEST.json'))['checks']))")
rc=0
for p in $ids; do
  out=$(./check $p 2>&1); e=$?
  echo "$p exit=$e $(echo "$out" | grep -E '^govc' | cut -c1-140)"
  echo "$out" | grep -E "VIOLATION|UNSUPP|UNDEC|MISSING|HARNESS" | head -5
  [ $e -ne 0 ] && rc=1
done
python3-vt - <<'PY'
import json,jsonschema,glob
m=json.load(open('/verif/MANIFEST.json')); jsonschema.validate(m,json.load(open('/root/.vp/MANIFEST.schema.json')))
s=json.load(open('/root/.vp/EVIDENCE.schema.json'))
for c in m['checks']:
    e=json.load(open('/verif/evidence/%s.json'%c['property_id'])); jsonschema.validate(e,s)
    if e['level']!=c['level_claimed']['category']: print("LEVEL MISMATCH",c['property_id'],e['level'])
print("manifest+evidence valid:",len(m['checks']),"checks")
PY
python3 /verif/tools/check_findings.py || rc=1
exit $rc
