#!/bin/bash
# tools/seedregress.sh [pattern]: applies every recorded seeded change (seeded/*/patch.diff, or patch_after_fix.diff
# when present) to a scratch worktree of /repo's HEAD and runs the property's check against that worktree
# (govc check -repo), without touching /repo. Prints one line per seed. The worktree is removed afterwards.
cd /verif
export GOFLAGS=-mod=mod GOPROXY=off
WT=/tmp/seedreg_wt
git -C /repo worktree remove --force $WT 2>/dev/null; rm -rf $WT
git -C /repo worktree add -q --detach $WT HEAD || exit 2
for d in seeded/*${1:-}*/; do
  id=$(basename $d); prop=${id%%-*}
  patch=$d/patch.diff; [ -f $d/patch_after_fix.diff ] && patch=$d/patch_after_fix.diff
  if ! git -C $WT apply --check $PWD/$patch 2>/dev/null; then echo "$id: PATCH-DOES-NOT-APPLY"; continue; fi
  git -C $WT apply $PWD/$patch
  s=$(date +%s)
  out=$(timeout 2400 bin/govc check -prop $prop -repo $WT -no-evidence 2>&1); e=$?
  v=$(echo "$out" | grep -c "^VIOLATION")
  first=$(echo "$out" | grep -m1 "obligation .* failed" | sed 's/^ *obligation //' | cut -c1-110)
  u=$(echo "$out" | grep -m1 -E "^UNSUPPORTED|^UNBOUND" | cut -c1-90)
  echo "$id: exit=$e violations=$v $(( $(date +%s)-s ))s $first $u"
  git -C $WT checkout -q -- . ; git -C $WT clean -fdq
done
git -C /repo worktree remove --force $WT; git -C /repo worktree prune
