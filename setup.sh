#!/bin/bash
# builds the verifier offline from files on disk only
set -e
cd "$(dirname "$0")/govc"
export GOFLAGS=-mod=mod GOPROXY=off GOTOOLCHAIN=${GOTOOLCHAIN:-auto}
unset GOSUMDB 2>/dev/null || true
mkdir -p ../bin
go build -o ../bin/govc .
echo "govc built"
