package main

import (
	"fmt"
	"go/token"
	"go/types"
	"strings"

	"golang.org/x/tools/go/ssa"
)

func (f *frame) call(st *State, instr ssa.Instruction, com *ssa.CallCommon, pos token.Pos) Val {
	vc := f.vc
	if bi, ok := com.Value.(*ssa.Builtin); ok {
		return f.builtin(st, bi, com, instr, pos)
	}
	if com.IsInvoke() {
		return f.invoke(st, com, instr, pos)
	}
	var callee *ssa.Function
	var bindings []Val
	var args []Val
	for _, a := range com.Args {
		args = append(args, vc.val(st, a))
	}
	if sc := com.StaticCallee(); sc != nil {
		callee = sc
		if mc, ok := com.Value.(*ssa.MakeClosure); ok {
			for _, b := range mc.Bindings {
				bindings = append(bindings, vc.val(st, b))
			}
		}
	} else if fv, ok := st.env[com.Value].(*FuncVal); ok {
		callee = fv.Fn
		bindings = fv.Bindings
	} else if fs, ok := st.env[com.Value].(*FuncSet); ok {
		// every alternative is executed on a scratch copy of the state so that
		// its obligations are generated; the actual effect is then havoced
		for _, alt := range fs.Alts {
			tmp := st.clone()
			cc := vc.eng.contractFor(alt.Fn)
			switch {
			case cc != nil && !cc.Inline:
				f.callContract(tmp, alt.Fn, cc, args, pos)
			case alt.Fn.Blocks != nil:
				vc.inlined[alt.Fn.String()] = true
				vc.execFunc(alt.Fn, cc, args, alt.Bindings, tmp, false)
			default:
				vc.havoced[alt.Fn.String()] = true
			}
		}
		return f.unknownCall(st, "call through a function value with several possible targets", com.Signature(), pos)
	}
	if callee == nil {
		if p, isParam := com.Value.(*ssa.Parameter); isParam && vc.contract != nil && vc.contract.FuncZero &&
			len(args) == 1 && com.Signature().Results().Len() == 1 && isBoolType(com.Signature().Results().At(0).Type()) {
			// "funczero": a func(byte) bool parameter is a pure predicate that is
			// false for 0 (callers are obliged to pass such functions)
			if a, ok := args[0].(*Term); ok {
				if ft, ok := st.env[p].(*Term); ok {
					return &Term{vc.fapp(ft.S, a), SBool, types.Typ[types.Bool]}
				}
			}
		}
		return f.unknownCall(st, "dynamic call "+com.Value.Name(), com.Signature(), pos)
	}
	cc := vc.eng.contractFor(callee)
	switch {
	case cc != nil && !cc.Inline:
		return f.callContract(st, callee, cc, args, pos)
	case callee.Blocks != nil && (cc != nil && cc.Inline || len(bindings) > 0 || callee.Parent() != nil || vc.eng.autoInline(callee)):
		vc.inlined[callee.String()] = true
		res, out := vc.execFunc(callee, cc, args, bindings, st, false)
		if out == nil {
			st.dead = true
			return nil
		}
		// continue in the callee's exit state
		reach := out.reach
		*st = *out
		st.reach = reach
		return res
	}
	return f.unknownCall(st, callee.String(), callee.Signature, pos)
}

func (f *frame) freshResult(sig *types.Signature, hint string) Val {
	vc := f.vc
	res := sig.Results()
	mk := func(t types.Type) Val { return vc.freshConst(hint, t) }
	switch res.Len() {
	case 0:
		return nil
	case 1:
		return mk(res.At(0).Type())
	}
	t := Tuple{}
	for i := 0; i < res.Len(); i++ {
		t = append(t, mk(res.At(i).Type()))
	}
	return t
}

func (f *frame) unknownCall(st *State, name string, sig *types.Signature, pos token.Pos) Val {
	vc := f.vc
	if vc.contract != nil && vc.contract.PureCalls && strings.HasPrefix(name, "dynamic call") {
		// "purecalls": calls through function values are assumed effect-free here
		vc.trusted["calls through function values in "+vc.fnName+" are effect-free (contract: purecalls)"] = true
		r := f.freshResult(sig, "dyn")
		f.assumeAllocatedVal(st, r)
		return r
	}
	vc.havoced[name] = true
	vc.havocAll(st)
	r := f.freshResult(sig, "ext")
	f.assumeAllocatedVal(st, r)
	return r
}

func (f *frame) assumeAllocatedVal(st *State, v Val) {
	switch v := v.(type) {
	case *Term:
		f.vc.assumeAllocated(st, v)
	case Tuple:
		for _, x := range v {
			f.assumeAllocatedVal(st, x)
		}
	}
}

// fapp: application of an opaque predicate value (a func(byte) bool parameter
// of a "funczero" function); it is false for 0.
func (vc *VC) fapp(f string, a *Term) string {
	fn := "fapp_" + sanitize(a.Sort)
	if !vc.declared[fn] {
		vc.declared[fn] = true
		vc.emitDecl("(declare-fun " + fn + " (Func " + a.Sort + ") Bool)")
	}
	key := fn + "/" + f
	if !vc.declared[key] {
		vc.declared[key] = true
		zero := "0"
		if strings.HasPrefix(a.Sort, "(_ BitVec") {
			zero = vc.intLit(0, bvBits(a.Sort))
		}
		vc.assume("(not (" + fn + " " + f + " " + zero + "))")
	}
	return "(" + fn + " " + f + " " + a.S + ")"
}

type heapLoc struct {
	hv  string
	ref string // "" = whole heap variable
}

// lvalues evaluates a modifies clause expression to heap locations.
func (sc *specCtx) lvalues(e CExpr) (locs []heapLoc, all bool) {
	vc := sc.vc
	switch e := e.(type) {
	case *CIdent:
		if e.Name == "all" {
			return nil, true
		}
		if hv, _, _ := vc.ghostHV(sc.pkg, e.Name); hv != "" {
			return []heapLoc{{hv, "nil"}}, false
		}
		// a package-level variable
		if sc.pkg != nil {
			if sp := vc.eng.prog.Package(sc.pkg); sp != nil {
				if g, ok := sp.Members[e.Name].(*ssa.Global); ok {
					return sc.objLocs(vc.global(g).S, g.Type().(*types.Pointer).Elem()), false
				}
			}
		}
	case *CCall:
		switch e.F {
		case "elems": // elements of a slice
			x := sc.evalTerm(e.Args[0])
			if x.T != nil {
				if _, isMap := x.T.Underlying().(*types.Map); isMap {
					hv, _, _, _ := vc.mapHV(x.T)
					return []heapLoc{{hv, x.S}}, false // the contents of the map
				}
			}
			if x.Sort != SSlice {
				unsup("modifies elems(x): x must be a slice or a map")
			}
			el := x.T.Underlying().(*types.Slice).Elem()
			return []heapLoc{{vc.arrHV(el), "(s-ref " + x.S + ")"}}, false
		case "deref", "fields":
			x := sc.evalTerm(e.Args[0])
			p, ok := types.Unalias(x.T).Underlying().(*types.Pointer)
			if !ok {
				unsup("modifies deref(x): x must be a pointer")
			}
			return sc.objLocs(x.S, p.Elem()), false
		case "heap": // heap(T.f) whole heap variable by name
			if s, ok := e.Args[0].(*CStr); ok {
				return []heapLoc{{s.V, ""}}, false
			}
		}
	case *CSel:
		x := sc.evalTerm(e.X)
		if x.T == nil {
			unsup("modifies: untyped base %s", e.X)
		}
		t := types.Unalias(x.T)
		p, ok := t.Underlying().(*types.Pointer)
		if !ok {
			unsup("modifies: %s is not a pointer", e.X)
		}
		s, ok := structOf(p.Elem())
		if !ok {
			unsup("modifies: %s does not point to a struct", e.X)
		}
		for i := 0; i < s.NumFields(); i++ {
			if s.Field(i).Name() == e.F {
				ft := s.Field(i).Type()
				if _, ok := structOf(ft); ok {
					return sc.objLocs(subRef(x.S, i), ft), false
				}
				if _, ok := arrayOf(ft); ok {
					return sc.objLocs(subRef(x.S, i), ft), false
				}
				return []heapLoc{{vc.fieldHV(p.Elem(), i), x.S}}, false
			}
		}
	}
	unsup("modifies: unsupported location %s", e)
	return nil, false
}

func (sc *specCtx) objLocs(ref string, t types.Type) []heapLoc {
	vc := sc.vc
	if s, ok := structOf(t); ok {
		var out []heapLoc
		for i := 0; i < s.NumFields(); i++ {
			ft := s.Field(i).Type()
			if _, ok := structOf(ft); ok {
				out = append(out, sc.objLocs(subRef(ref, i), ft)...)
			} else if _, ok := arrayOf(ft); ok {
				out = append(out, sc.objLocs(subRef(ref, i), ft)...)
			} else {
				out = append(out, heapLoc{vc.fieldHV(t, i), ref})
			}
		}
		return out
	}
	if a, ok := arrayOf(t); ok {
		return []heapLoc{{vc.arrHV(a.Elem()), ref}}
	}
	return []heapLoc{{vc.cellHV(t), ref}}
}

// modifiesHeapVars: static over-approximation used for loop havoc.
func (vc *VC) modifiesHeapVars(callee *ssa.Function, cc *Contract) (hvs []string, all bool) {
	if len(cc.Modifies) == 0 {
		return nil, false
	}
	// evaluate with dummy arguments to learn the heap variable names
	defer func() {
		if r := recover(); r != nil {
			if _, ok := r.(unsupported); ok {
				hvs, all = nil, true
				return
			}
			panic(r)
		}
	}()
	st := &State{reach: "true", env: map[ssa.Value]Val{}, heap: map[string]string{}, names: map[string]Val{}, alloc: "0"}
	vc.suppress++
	saved := len(vc.cmds)
	savedDecl := make(map[string]bool, len(vc.declared))
	for k, v := range vc.declared {
		savedDecl[k] = v
	}
	defer func() { vc.suppress--; vc.cmds = vc.cmds[:saved]; vc.declared = savedDecl }()
	sc := &specCtx{vc: vc, st: st, old: st, vars: map[string]Val{}, bound: map[string]*Term{}, pkg: pkgOf(callee), fn: callee}
	bindDummy(vc, sc, callee, cc)
	for _, m := range cc.Modifies {
		locs, a := sc.lvalues(m.Expr)
		if a {
			return nil, true
		}
		for _, l := range locs {
			hvs = append(hvs, l.hv)
		}
	}
	return
}

func pkgOf(fn *ssa.Function) *types.Package {
	if fn.Pkg != nil {
		return fn.Pkg.Pkg
	}
	if o := fn.Origin(); o != nil && o.Pkg != nil {
		return o.Pkg.Pkg
	}
	if fn.Object() != nil {
		return fn.Object().Pkg()
	}
	return nil
}

func bindDummy(vc *VC, sc *specCtx, callee *ssa.Function, cc *Contract) {
	sig := callee.Signature
	k := 0
	if sig.Recv() != nil {
		if cc.RecvName != "" {
			sc.vars[cc.RecvName] = &Term{"dummy", vc.sortOf(sig.Recv().Type()), sig.Recv().Type()}
		}
	}
	for i, name := range cc.Params {
		if k+i < sig.Params().Len() {
			t := sig.Params().At(k + i).Type()
			sc.vars[name] = &Term{"dummy", vc.sortOf(t), t}
		}
	}
}

// bindCall binds contract parameter names to argument values.
func bindCall(sc *specCtx, callee *ssa.Function, cc *Contract, args []Val) {
	k := 0
	if callee.Signature.Recv() != nil {
		if cc.RecvName != "" && len(args) > 0 {
			sc.vars[cc.RecvName] = args[0]
		}
		k = 1
	}
	for i, name := range cc.Params {
		if k+i < len(args) {
			sc.vars[name] = args[k+i]
		}
	}
}

func bindResults(sc *specCtx, cc *Contract, res Val) {
	if len(cc.Results) == 0 || res == nil {
		return
	}
	if t, ok := res.(Tuple); ok {
		for i, n := range cc.Results {
			if i < len(t) {
				sc.vars[n] = t[i]
			}
		}
		return
	}
	sc.vars[cc.Results[0]] = res
}

func (f *frame) callContract(st *State, callee *ssa.Function, cc *Contract, args []Val, pos token.Pos) Val {
	vc := f.vc
	name := callee.String()
	short := shortFn(callee)
	if cc.Assumed {
		vc.trusted[name+" (assumed contract)"] = true
	} else {
		vc.usedContracts[name] = true
	}
	if f.isTop && f.c != nil && len(f.c.Shared) > 0 {
		// other threads run between the previous step and this one
		f.interfere(st, pos)
	}
	if f.isTop && f.c != nil && len(f.c.LockInv) > 0 && name == "(*sync.Mutex).Unlock" {
		// monitor invariant: re-established before the lock is released
		lsc := f.specCtx(st, vc.oldState)
		lsc.bound = map[string]*Term{}
		f.bindParams(lsc)
		for _, li := range f.c.LockInv {
			vc.oblige(st, "lockinv."+li.Name, lsc.evalBool(li.Expr), "monitor invariant holds when the lock is released: "+li.Src, pos, true)
		}
	}
	if f.isTop && f.c != nil && len(f.c.BeforeCall) > 0 {
		// ghost snapshots of the state this callee starts in
		bsc := f.specCtx(st, vc.oldState)
		bsc.bound = map[string]*Term{}
		f.bindParams(bsc)
		for _, g := range f.c.BeforeCall {
			if !strings.Contains(name, g.Type) {
				continue
			}
			hv, _, _ := vc.ghostHV(bsc.pkg, g.Name)
			if hv == "" {
				unsup("before_call: %s is not a ghost variable", g.Name)
			}
			v := bsc.evalTerm(g.Expr)
			vc.heapSet(st, hv, "(store "+vc.heapGet(st, hv)+" nil "+v.S+")")
		}
	}
	pre := st.clone()
	sc := &specCtx{vc: vc, st: st, old: pre, vars: map[string]Val{}, bound: map[string]*Term{}, pkg: pkgOf(callee), fn: callee}
	bindCall(sc, callee, cc, args)
	for _, g := range cc.Ghosts {
		// a callee witness is instantiated by the caller's witness of the same name
		w, ok := vc.ghost[g.Name]
		if !ok {
			if !vc.noSafety {
				unsup("call of %s: no witness named %s in the caller's contract", short, g.Name)
			}
			// permission mode: functional preconditions are not checked, any witness will do
			gs, gt := sc.quantSort(g.Type)
			w = vc.freshSort("w_"+g.Name, gs)
			w.T = gt
		}
		sc.vars[g.Name] = w
	}
	// a function passed to a "funczero" callee must be false for 0
	if cc.FuncZero {
		for i, a := range args {
			fv, ok := a.(*FuncVal)
			if !ok || fv.Fn.Signature.Params().Len() != 1 {
				continue
			}
			pt := fv.Fn.Signature.Params().At(0).Type()
			if !isIntType(pt) {
				continue
			}
			bits, _ := intInfo(pt)
			tmp := st.clone()
			zero := &Term{vc.intLit(0, bits), vc.intSort(bits), pt}
			var res Val
			if fcc := vc.eng.contractFor(fv.Fn); fcc != nil && !fcc.Inline {
				res = f.callContract(tmp, fv.Fn, fcc, []Val{zero}, pos)
			} else if fv.Fn.Blocks != nil {
				res, _ = vc.execFunc(fv.Fn, fcc, []Val{zero}, fv.Bindings, tmp, false)
			}
			if rt, ok := res.(*Term); ok {
				tmp.reach = st.reach
				vc.oblige(tmp, "pre."+short+".funczero", not(rt.S), fmt.Sprintf("function argument %d of %s is false for 0", i, short), pos, false)
			}
		}
	}
	// type invariants of arguments are proof obligations at the call
	for i, a := range args {
		if t, ok := a.(*Term); ok {
			if g := vc.typeInvFact(sc, t); g != "true" {
				vc.obligeAndAssume(st, "pre."+short+".typeinv", g, fmt.Sprintf("argument %d of %s satisfies its type invariant", i, short), pos)
			}
		}
	}
	for _, r := range cc.Requires {
		g := sc.evalBool(r.Expr)
		kind := "pre." + short
		if r.Name != "" {
			kind += "." + r.Name
		}
		if strings.HasSuffix(short, "assert.That") {
			kind = "assert"
		}
		if vc.noSafety && !vc.mentionsPermission(sc, r.Expr) {
			// permission mode ("nosafety"): only preconditions about ghost
			// permissions are obligations; functional preconditions are assumed
			vc.assumeUnder(st.reach, g)
			continue
		}
		if parts := conjuncts(g); len(parts) > 3 && len(g) > 1500 {
			// a large conjunction is discharged conjunct by conjunct (smaller queries)
			for k, part := range parts {
				vc.obligeAndAssume(st, fmt.Sprintf("%s.c%d", kind, k), part, fmt.Sprintf("precondition of %s (conjunct %d): %s", short, k, r.Src), pos)
			}
			continue
		}
		vc.obligeAndAssume(st, kind, g, "precondition of "+short+": "+r.Src, pos)
	}
	if cc.EnsuresPanic {
		st.dead = true
		return nil
	}
	// frame: havoc what the callee may modify
	// "all" first (it keeps the ghost variables), then the listed locations -
	// after "modifies all" only ghost variables still matter
	for _, m := range cc.Modifies {
		if _, all := sc.lvalues(m.Expr); all {
			vc.havocAll(st)
		}
	}
	for _, m := range cc.Modifies {
		locs, all := sc.lvalues(m.Expr)
		if all {
			continue
		}
		for _, l := range locs {
			if l.ref == "" {
				vc.havocHeapVar(st, l.hv)
				continue
			}
			nv := vc.fresh("hv")
			vc.declare(nv, vc.heapSort[l.hv])
			vc.heapSet(st, l.hv, "(store "+vc.heapGet(st, l.hv)+" "+l.ref+" "+nv+")")
		}
	}
	if !cc.Pure {
		a := vc.fresh("alloc")
		vc.declare(a, "Int")
		vc.assume("(>= " + a + " " + st.alloc + ")")
		st.alloc = a
	}
	forked := false
	if vc.panicSink != nil && (cc.MayPanic || cc.PanicsIf != nil || len(cc.OnPanic) > 0) {
		// panics are control flow here: the callee may end in a panic (after
		// whatever it modified), which the deferred calls of the function
		// under contract get to see
		var pc string
		if cc.PanicsIf != nil {
			n := *sc
			n.st = pre
			pc = n.evalBool(cc.PanicsIf.Expr)
		} else {
			pc = vc.fresh("calleepanics")
			vc.declare(pc, SBool)
		}
		ps := st.clone()
		ps.reach = vc.nameBool("cpanic", and(st.reach, pc))
		pv := vc.freshPanicValue()
		ps.pval = pv
		// what the callee promises about the state it panics in
		for _, e := range cc.OnPanic {
			n := *sc
			n.st = ps
			vc.assumeUnder(ps.reach, n.evalBool(e.Expr))
		}
		if f.isTop && cc.PanicsIf == nil {
			// vacuity guard: the assumptions about the panicking callee are satisfiable
			if o := vc.oblige(ps, "cover.callee_panics", "false", "the path on which "+short+" panics is reachable (vacuity guard)", pos, false); o != nil {
				o.Cover = true
			}
		}
		vc.raise(ps, pv)
		st.reach = vc.nameBool("creturn", and(st.reach, not(pc)))
		forked = true
	}
	res := f.freshResult(callee.Signature, "r_"+sanitize(callee.Name()))
	f.assumeAllocatedVal(st, res)
	bindResults(sc, cc, res)
	for _, g := range cc.GhostRes {
		gs, gt := sc.quantSort(g.Type)
		gv := vc.freshSort("gh_"+g.Name, gs)
		gv.T = gt
		vc.assume(vc.typingFact(gv))
		sc.vars[g.Name] = gv
	}
	sc.st = st
	if cc.PanicsIf != nil && !forked {
		// the call returned, so the panic condition was false
		n := *sc
		n.st = pre
		q := n.evalBool(cc.PanicsIf.Expr)
		if vc.contract != nil && vc.contract.MayPanic {
			// the caller is allowed to panic: a propagated panic is no obligation
			vc.assumeUnder(st.reach, not(q))
		} else if f.isTop && f.c != nil && f.c.PanicsIf != nil {
			// the callee's panic propagates: allowed exactly when the caller's own
			// panics_if condition holds
			psc := f.specCtx(vc.oldState, vc.oldState)
			psc.bound = map[string]*Term{}
			f.bindParams(psc)
			vc.oblige(st, "panic.only_if", implies(q, psc.evalBool(f.c.PanicsIf.Expr)),
				"panic propagated from "+short+" only when: "+f.c.PanicsIf.Src, pos, false)
			vc.assumeUnder(st.reach, not(q))
		} else {
			kind, desc := "pre."+short+".nopanic", "call does not panic: not ("+cc.PanicsIf.Src+")"
			if strings.HasSuffix(short, "assert.That") {
				kind, desc = "assert", "precondition of assert.That: cond"
			}
			vc.obligeAndAssume(st, kind, not(q), desc, pos)
		}
	}
	for _, e := range cc.Ensures {
		vc.assumeUnder(st.reach, sc.evalBool(e.Expr))
	}
	for _, e := range cc.Defines {
		vc.trusted[name+" (defines: result named by uninterpreted spec functions; determinism assumed)"] = true
		vc.assumeUnder(st.reach, sc.evalBool(e.Expr))
	}
	// an atomic step of a function with guarantee clauses: each clause must
	// hold between the state before and the state after the step
	if cc.Atomic && f.isTop && f.c != nil && len(f.c.Guarantees) > 0 {
		gsc := f.specCtx(st, pre)
		gsc.bound = map[string]*Term{}
		f.bindParams(gsc)
		for _, g := range f.c.Guarantees {
			vc.oblige(st, "guarantee."+g.Name, gsc.evalBool(g.Expr),
				"guarantee across the atomic step "+short+": "+g.Src, pos, true)
		}
	}
	if cc.Atomic && f.isTop && f.c != nil && len(f.c.AtAtomic) > 0 {
		f.atAtomic(st, pre)
	}
	if f.isTop && f.c != nil && len(f.c.LockInv) > 0 && name == "(*sync.Mutex).Lock" {
		// monitor invariant: holds when the lock has been acquired (every writer of
		// the protected state holds the lock and re-establishes it before Unlock)
		lsc := f.specCtx(st, vc.oldState)
		lsc.bound = map[string]*Term{}
		f.bindParams(lsc)
		for _, li := range f.c.LockInv {
			vc.trusted["monitor invariant assumed after Lock in "+f.fn.Name()+": "+li.Src+" (obliged before every Unlock of this function; other writers of the protected state must hold the lock)"] = true
			vc.assumeUnder(st.reach, lsc.evalBool(li.Expr))
		}
	}
	// type invariants of results
	assumeInv := func(v Val) {
		if t, ok := v.(*Term); ok {
			vc.assumeUnder(st.reach, vc.typeInvFact(sc, t))
		}
	}
	if tv, ok := res.(Tuple); ok {
		for _, x := range tv {
			assumeInv(x)
		}
	} else if res != nil {
		assumeInv(res)
	}
	return res
}

func shortFn(fn *ssa.Function) string {
	s := fn.String()
	s = strings.ReplaceAll(s, "github.com/apmckinlay/gsuneido/", "")
	if i := strings.LastIndex(s, "/"); i >= 0 && !strings.HasPrefix(s, "(") {
		s = s[i+1:]
	}
	if strings.HasPrefix(s, "(") {
		// (*pkg/path.T).m -> (*path.T).m
		if i := strings.LastIndex(s, "/"); i >= 0 {
			star := ""
			if strings.HasPrefix(s, "(*") {
				star = "*"
			}
			s = "(" + star + s[i+1:]
		}
	}
	return s
}

// typeInvFact instantiates a declared type invariant for a value.
func (vc *VC) typeInvFact(sc *specCtx, t *Term) string {
	if t.T == nil {
		return "true"
	}
	var facts []string
	if nt, ok := types.Unalias(t.T).(*types.Named); ok && nt.Obj().Pkg() != nil {
		if ti := vc.eng.cs.TypeInvs[nt.Obj().Pkg().Path()+"#"+nt.Obj().Name()]; ti != nil {
			n := sc.child()
			if p := vc.eng.typesPkg(ti.PkgPath); p != nil {
				n.pkg = p
			}
			n.vars[ti.Self] = t
			facts = append(facts, n.evalBool(ti.Clause.Expr))
		}
	}
	// invariants of struct-valued fields (e.g. SuDnum{Dnum})
	if s, ok := structOf(t.T); ok && vc.hasNestedInv(t.T, 0) {
		sn := vc.sortOf(t.T)
		for i := 0; i < s.NumFields(); i++ {
			ft := s.Field(i).Type()
			if _, isS := structOf(ft); isS {
				f := vc.typeInvFact(sc, &Term{fmt.Sprintf("(%s_f%d %s)", sn, i, t.S), vc.sortOf(ft), ft})
				if f != "true" {
					facts = append(facts, f)
				}
			}
		}
	}
	return and(facts...)
}

// hasNestedInv: does the type, or a struct-valued field of it, carry a declared invariant?
func (vc *VC) hasNestedInv(t types.Type, depth int) bool {
	if depth > 4 {
		return false
	}
	if nt, ok := types.Unalias(t).(*types.Named); ok && nt.Obj().Pkg() != nil {
		if vc.eng.cs.TypeInvs[nt.Obj().Pkg().Path()+"#"+nt.Obj().Name()] != nil {
			return true
		}
	}
	if s, ok := structOf(t); ok {
		for i := 0; i < s.NumFields(); i++ {
			if _, isS := structOf(s.Field(i).Type()); isS && vc.hasNestedInv(s.Field(i).Type(), depth+1) {
				return true
			}
		}
	}
	return false
}

// assumeTypeInv: values coming out of an interface or memory satisfy the
// invariants of their type (every constructor is obliged to establish them).
func (vc *VC) assumeTypeInv(st *State, t *Term) {
	if t.T == nil || !vc.hasNestedInv(t.T, 0) {
		return
	}
	var pkg *types.Package
	if vc.root != nil && vc.root.Pkg != nil {
		pkg = vc.root.Pkg.Pkg
	}
	sc := &specCtx{vc: vc, st: st, old: st, vars: map[string]Val{}, bound: map[string]*Term{}, pkg: pkg}
	vc.assumeUnder(st.reach, vc.typeInvFact(sc, t))
}

func (f *frame) invoke(st *State, com *ssa.CallCommon, instr ssa.Instruction, pos token.Pos) Val {
	vc := f.vc
	recv := vc.term(st, com.Value)
	var args []Val
	args = append(args, recv)
	for _, a := range com.Args {
		args = append(args, vc.val(st, a))
	}
	if !vc.noNil {
		vc.obligeAndAssume(st, "nil", "(not (= (i-tag "+recv.S+") 0))", "method call on nil interface: "+com.Method.Name(), pos)
	}
	ic := vc.eng.ifaceContract(com)
	if ic == nil {
		return f.unknownCall(st, "interface method "+com.Method.FullName(), com.Signature(), pos)
	}
	vc.trusted["interface contract "+com.Method.FullName()+" (assumed for implementations not under contract)"] = true
	// evaluate like a contract call with receiver = interface value
	pre := st.clone()
	sc := &specCtx{vc: vc, st: st, old: pre, vars: map[string]Val{}, bound: map[string]*Term{}, pkg: com.Method.Pkg()}
	if ic.RecvName != "" {
		sc.vars[ic.RecvName] = recv
	}
	for i, n := range ic.Params {
		if i+1 < len(args) {
			sc.vars[n] = args[i+1]
		}
	}
	short := "iface." + com.Method.Name()
	for _, r := range ic.Requires {
		if vc.noSafety && !vc.mentionsPermission(sc, r.Expr) {
			vc.assumeUnder(st.reach, sc.evalBool(r.Expr))
			continue
		}
		vc.obligeAndAssume(st, "pre."+short, sc.evalBool(r.Expr), "precondition of "+short+": "+r.Src, pos)
	}
	if ic.EnsuresPanic {
		st.dead = true
		return nil
	}
	for _, m := range ic.Modifies {
		if _, all := sc.lvalues(m.Expr); all {
			vc.havocAll(st)
		}
	}
	for _, m := range ic.Modifies {
		locs, all := sc.lvalues(m.Expr)
		if all {
			continue
		}
		for _, l := range locs {
			if l.ref == "" {
				vc.havocHeapVar(st, l.hv)
				continue
			}
			nv := vc.fresh("hv")
			vc.declare(nv, vc.heapSort[l.hv])
			vc.heapSet(st, l.hv, "(store "+vc.heapGet(st, l.hv)+" "+l.ref+" "+nv+")")
		}
	}
	if !ic.Pure {
		// the callee may allocate
		a := vc.fresh("alloc")
		vc.declare(a, "Int")
		vc.assume("(>= " + a + " " + st.alloc + ")")
		st.alloc = a
	}
	res := f.freshResult(com.Signature(), "r_"+sanitize(com.Method.Name()))
	f.assumeAllocatedVal(st, res)
	bindResults(sc, ic, res)
	sc.st = st
	for _, e := range ic.Ensures {
		vc.assumeUnder(st.reach, sc.evalBool(e.Expr))
	}
	return res
}

func (f *frame) builtin(st *State, bi *ssa.Builtin, com *ssa.CallCommon, instr ssa.Instruction, pos token.Pos) Val {
	vc := f.vc
	it := types.Typ[types.Int]
	switch bi.Name() {
	case "recover":
		// live only while the deferred calls of the function under contract run
		// on a panic exit: returns the panic value and stops the panic
		et := types.NewInterfaceType(nil, nil)
		if !vc.inDefers || st.panicking == "" || st.panicking == "false" {
			return &Term{"(mk-iface 0 0)", SIface, et}
		}
		r := vc.define("recovered", &Term{ite(st.panicking, st.pval, "(mk-iface 0 0)"), SIface, et})
		st.panicking = "false"
		return r
	case "len", "cap":
		x := vc.term(st, com.Args[0])
		switch u := com.Args[0].Type().Underlying().(type) {
		case *types.Slice:
			return vc.define("len", &Term{"(s-" + bi.Name() + " " + x.S + ")", vc.idxSort(), it})
		case *types.Basic:
			if vc.absStr {
				unsup("len(string) with abstract strings")
			}
			return vc.define("len", &Term{"(str-len " + x.S + ")", vc.idxSort(), it})
		case *types.Array:
			return &Term{vc.intLit(u.Len(), 64), vc.idxSort(), it}
		case *types.Pointer:
			a, _ := arrayOf(u.Elem())
			return &Term{vc.intLit(a.Len(), 64), vc.idxSort(), it}
		case *types.Map:
			r := vc.freshConst("maplen", it)
			vc.assume(vc.le(vc.intLit(0, 64), r.S, true))
			return r
		}
	case "append":
		s := vc.term(st, com.Args[0])
		if len(com.Args) == 1 {
			return s
		}
		t := vc.term(st, com.Args[1])
		return vc.appendOp(st, s, t, instr.(ssa.Value).Type(), pos)
	case "copy":
		return vc.copyOp(st, vc.term(st, com.Args[0]), vc.term(st, com.Args[1]), pos)
	case "min", "max":
		r := vc.term(st, com.Args[0])
		for _, a := range com.Args[1:] {
			y := vc.term(st, a)
			if isStringType(r.T) && vc.absStr {
				// abstract ordered strings are integers in the encoding
				c := "(< " + r.S + " " + y.S + ")"
				if bi.Name() == "max" {
					c = "(< " + y.S + " " + r.S + ")"
				}
				r = vc.define("mm", &Term{ite(c, r.S, y.S), r.Sort, r.T})
				continue
			}
			if !isIntType(r.T) {
				unsup("min/max on non-integers")
			}
			_, signed := intInfo(r.T)
			c := vc.lt(r.S, y.S, signed)
			if bi.Name() == "max" {
				c = vc.lt(y.S, r.S, signed)
			}
			r = vc.define("mm", &Term{ite(c, r.S, y.S), r.Sort, r.T})
		}
		return r
	case "print", "println":
		return nil
	case "delete":
		vc.mapDelete(st, vc.term(st, com.Args[0]), com.Args[0].Type(), vc.term(st, com.Args[1]))
		return nil
	case "ssa:wrapnilchk":
		x := vc.val(st, com.Args[0])
		vc.nilCheck(st, x, pos, "method value receiver")
		return x
	}
	unsup("builtin %s", bi.Name())
	return nil
}

// obligeTypeInv: a value entering memory or an interface must satisfy the
// invariants of its type (they are assumed again when it is read back).
func (vc *VC) obligeTypeInv(st *State, t *Term, kind, desc string, pos token.Pos) {
	if t == nil || t.T == nil || !vc.hasNestedInv(t.T, 0) {
		return
	}
	var pkg *types.Package
	if vc.root != nil && vc.root.Pkg != nil {
		pkg = vc.root.Pkg.Pkg
	}
	sc := &specCtx{vc: vc, st: st, old: st, vars: map[string]Val{}, bound: map[string]*Term{}, pkg: pkg}
	if g := vc.typeInvFact(sc, t); g != "true" {
		vc.obligeAndAssume(st, kind, g, desc, pos)
	}
}

// interfere models what other threads may do before the next step of the
// function under contract: the locations its contract declares `shared` get
// arbitrary new values, constrained only by its `rely` clauses (two-state).
func (f *frame) interfere(st *State, pos token.Pos) {
	vc := f.vc
	c := f.c
	old := st.clone()
	sc := f.specCtx(st, old)
	sc.bound = map[string]*Term{}
	f.bindParams(sc)
	for _, m := range c.Shared {
		locs, all := sc.lvalues(m.Expr)
		if all {
			vc.havocAll(st)
			continue
		}
		for _, l := range locs {
			if l.ref == "" {
				vc.havocHeapVar(st, l.hv)
				continue
			}
			nv := vc.fresh("shared")
			vc.declare(nv, vc.heapSort[l.hv])
			vc.heapSet(st, l.hv, "(store "+vc.heapGet(st, l.hv)+" "+l.ref+" "+nv+")")
			// the new value is a value of the field's type
			vc.assume(vc.typingFact(&Term{nv, vc.heapSort[l.hv], vc.heapType[l.hv]}))
		}
	}
	a := vc.fresh("alloc")
	vc.declare(a, "Int")
	vc.assume("(>= " + a + " " + st.alloc + ")")
	st.alloc = a
	rsc := f.specCtx(st, old)
	rsc.bound = map[string]*Term{}
	f.bindParams(rsc)
	for _, r := range c.Rely {
		vc.trusted["rely clause of "+f.fn.Name()+": "+r.Src+" (what other threads may do between two steps: assumed here, argued from the guarantee clauses)"] = true
		vc.assumeUnder(st.reach, rsc.evalBool(r.Expr))
	}
	if !vc.interfCover {
		vc.interfCover = true
		if o := vc.oblige(st, "cover.interference", "false", "the rely clauses are satisfiable (vacuity guard)", pos, false); o != nil {
			o.Cover = true
		}
	}
}

// atAtomic runs the at_atomic ghost assignments after an atomic step.
func (f *frame) atAtomic(st *State, pre *State) {
	vc := f.vc
	sc := f.specCtx(st, pre)
	sc.bound = map[string]*Term{}
	f.bindParams(sc)
	for _, g := range f.c.AtAtomic {
		hv, _, _ := vc.ghostHV(sc.pkg, g.Name)
		if hv == "" {
			unsup("at_atomic: %s is not a ghost variable", g.Name)
		}
		v := sc.evalTerm(g.Expr)
		vc.heapSet(st, hv, "(store "+vc.heapGet(st, hv)+" nil "+v.S+")")
	}
}
