package main

import (
	"go/types"
	"strings"
)

func (vc *VC) findGhost(pkg *types.Package, name string) *GhostVar {
	if pkg != nil {
		if g := vc.eng.cs.Ghosts[pkg.Path()+"#"+name]; g != nil {
			return g
		}
	}
	for k, x := range vc.eng.cs.Ghosts {
		if strings.HasSuffix(k, "#"+name) {
			return x
		}
	}
	return nil
}

// ghostHV returns the heap variable modelling a ghost package variable
// declared with "//@ ghost var name type" (types: int, bool, bytes, ints).
// Ghost variables live at reference nil of their own heap variable.
func (vc *VC) ghostHV(pkg *types.Package, name string) (hv, sort string, t types.Type) {
	g := vc.findGhost(pkg, name)
	if g == nil {
		return "", "", nil
	}
	short := g.PkgPath
	if i := strings.LastIndex(short, "/"); i >= 0 {
		short = short[i+1:]
	}
	hv = "G_" + sanitize(short) + "_" + sanitize(name)
	f := strings.Fields(g.Type)
	switch f[0] {
	case "int":
		sort, t = vc.idxSort(), types.Typ[types.Int]
	case "bool":
		sort, t = SBool, types.Typ[types.Bool]
	case "bytes":
		sort = "(Array " + vc.idxSort() + " " + vc.intSort(8) + ")"
	case "ints":
		sort = "(Array " + vc.idxSort() + " " + vc.idxSort() + ")"
	default:
		// a pointer to a named type of the declaring package: "*T"
		var nt types.Type
		if strings.HasPrefix(f[0], "*") {
			if p := vc.eng.typesPkg(g.PkgPath); p != nil {
				if tn, ok := p.Scope().Lookup(f[0][1:]).(*types.TypeName); ok {
					nt = types.NewPointer(tn.Type())
				}
			}
		}
		if nt == nil {
			unsup("ghost var %s: unsupported type %s", name, g.Type)
		}
		sort, t = SRef, nt
	}
	vc.regHeap(hv, sort, t)
	// "ghost var n int range lo hi": an assumed invariant of the ghost variable
	if len(f) == 4 && f[1] == "range" {
		vc.ghostRange[hv] = [2]string{f[2], f[3]}
	}
	return
}

// mentionsPermission: does the expression mention a boolean ghost variable
// (a permission)? Used in permission mode to select the preconditions that
// remain proof obligations.
func (vc *VC) mentionsPermission(sc *specCtx, e CExpr) bool {
	names := map[string]bool{}
	for _, g := range vc.eng.cs.Ghosts {
		if strings.Fields(g.Type)[0] == "bool" {
			names[g.Name] = true
		}
	}
	return mentions(e, names)
}
