package main

import (
	"go/types"
	"strings"
)

// ghostHV returns the heap variable modelling a ghost package variable
// declared with "//@ ghost var name type" (types: int, bool, bytes, ints).
// Ghost variables live at reference nil of their own heap variable.
func (vc *VC) ghostHV(pkg *types.Package, name string) (hv, sort string, t types.Type) {
	var g *GhostVar
	if pkg != nil {
		g = vc.eng.cs.Ghosts[pkg.Path()+"#"+name]
	}
	if g == nil {
		for k, x := range vc.eng.cs.Ghosts {
			if strings.HasSuffix(k, "#"+name) {
				g = x
			}
		}
	}
	if g == nil {
		return "", "", nil
	}
	short := g.PkgPath
	if i := strings.LastIndex(short, "/"); i >= 0 {
		short = short[i+1:]
	}
	hv = "G_" + sanitize(short) + "_" + sanitize(name)
	switch g.Type {
	case "int":
		sort, t = vc.idxSort(), types.Typ[types.Int]
	case "bool":
		sort, t = SBool, types.Typ[types.Bool]
	case "bytes":
		sort = "(Array " + vc.idxSort() + " " + vc.intSort(8) + ")"
	case "ints":
		sort = "(Array " + vc.idxSort() + " " + vc.idxSort() + ")"
	default:
		unsup("ghost var %s: unsupported type %s", name, g.Type)
	}
	vc.regHeap(hv, sort, t)
	return
}
