package main

// Extraction of a concrete input (parameters + reachable initial heap) from a
// solver model, and its rendering as Go source.

import (
	"fmt"
	"go/types"
	"math/big"
	"sort"
	"strconv"
	"strings"
)

type xnode struct {
	t       types.Type
	kind    string // int bool str absstr slice ptr struct array float other
	term    string
	val     string
	lenT    string
	capT    string
	lenV    int
	capV    int
	refT    string
	refV    string
	fields  []*xnode
	elems   []*xnode
	pointee *xnode
	unsup   string
	altTags []int // interface: dynamic type tags of the payload alternatives in elems
}

type xplan struct {
	vc       *VC
	declared map[string]bool
	terms    []string // terms to query, in order
	nodes    []*xnode // node for each term (parallel; one node may own several terms)
	slots    []*string
	facts    []string // typing + small-scope facts for ground extraction terms
	maxElems int
}

func (p *xplan) ask(term string, dst *string) {
	p.terms = append(p.terms, term)
	p.slots = append(p.slots, dst)
}

// heapInit returns the initial version of a heap variable if the VC mentions it.
func (p *xplan) heapInit(name string) (string, bool) {
	n := name + "@0"
	return n, p.declared[n]
}

func (p *xplan) build(t types.Type, term string, depth int) *xnode {
	vc := p.vc
	n := &xnode{t: t, term: term}
	tt := types.Unalias(t)
	switch u := tt.Underlying().(type) {
	case *types.Basic:
		switch {
		case isIntType(tt):
			n.kind = "int"
			p.ask(term, &n.val)
		case isBoolType(tt):
			n.kind = "bool"
			p.ask(term, &n.val)
		case isStringType(tt):
			if vc.absStr {
				n.kind = "absstr"
				p.ask(term, &n.val)
				break
			}
			n.kind = "str"
			n.lenT = "(str-len " + term + ")"
			p.ask(n.lenT, &n.val)
			p.facts = append(p.facts, "(<= 0 "+n.lenT+")", vc.le(n.lenT, vc.intLit(int64(p.maxElems), 64), true), vc.le(vc.intLit(0, 64), n.lenT, true))
			for i := 0; i < p.maxElems; i++ {
				e := &xnode{t: types.Typ[types.Uint8], kind: "int"}
				e.term = "(select (str-arr " + term + ") " + vc.at("(str-off "+term+")", vc.intLit(int64(i), 64)) + ")"
				p.ask(e.term, &e.val)
				n.elems = append(n.elems, e)
			}
		case isFloatType(tt):
			n.kind = "float"
		default:
			n.kind = "other"
			n.unsup = "basic type " + tt.String()
		}
	case *types.Struct:
		n.kind = "struct"
		sn := vc.sortOf(tt)
		for i := 0; i < u.NumFields(); i++ {
			n.fields = append(n.fields, p.build(u.Field(i).Type(), fmt.Sprintf("(%s_f%d %s)", sn, i, term), depth))
		}
	case *types.Array:
		n.kind = "array"
		k := int(u.Len())
		if k > p.maxElems+2 {
			k = p.maxElems + 2
		}
		for i := 0; i < k; i++ {
			n.elems = append(n.elems, p.build(u.Elem(), "(select "+term+" "+vc.intLit(int64(i), 64)+")", depth))
		}
	case *types.Slice:
		n.kind = "slice"
		n.lenT, n.capT, n.refT = "(s-len "+term+")", "(s-cap "+term+")", "(s-ref "+term+")"
		p.ask(n.lenT, &n.val)
		var capS string
		p.ask(n.capT, &capS)
		n.fields = append(n.fields, &xnode{kind: "int", val: ""})
		n.fields[0].term = n.capT
		p.slots[len(p.slots)-1] = &n.fields[0].val
		p.ask(n.refT, &n.refV)
		z := vc.intLit(0, 64)
		p.facts = append(p.facts, vc.le(z, n.lenT, true), vc.le(n.lenT, n.capT, true), vc.le(n.capT, vc.intLit(int64(p.maxElems+2), 64), true), vc.le(n.lenT, vc.intLit(int64(p.maxElems), 64), true),
			vc.le(z, "(s-off "+term+")", true), vc.le("(s-off "+term+")", vc.intLit(4, 64), true))
		hv := vc.arrHV(u.Elem())
		h0, ok := p.heapInit(hv)
		if !ok {
			break // contents irrelevant to the obligation
		}
		for i := 0; i < p.maxElems; i++ {
			et := "(select (select " + h0 + " " + n.refT + ") " + vc.at("(s-off "+term+")", vc.intLit(int64(i), 64)) + ")"
			n.elems = append(n.elems, p.build(u.Elem(), et, depth))
		}
	case *types.Pointer:
		n.kind = "ptr"
		n.refT = term
		p.ask(term, &n.refV)
		p.facts = append(p.facts, "(>= (rid "+term+") 0)", "(< (rid "+term+") alloc0)")
		if depth >= 3 {
			break
		}
		n.pointee = p.buildAt(u.Elem(), term, depth+1)
	case *types.Interface:
		n.kind = "iface"
		n.fields = []*xnode{{kind: "int", t: types.Typ[types.Int]}, {kind: "int", t: types.Typ[types.Int]}}
		p.ask("(i-tag "+term+")", &n.fields[0].val)
		p.ask("(i-val "+term+")", &n.fields[1].val)
		if u.NumMethods() > 0 && depth < 2 {
			// payload alternatives: one per concrete type with a tag in the VC
			for i, ct := range vc.tagTypes {
				if i >= 16 {
					break
				}
				if _, isPtr := ct.Underlying().(*types.Pointer); isPtr || !types.Implements(ct, u) {
					continue
				}
				_, unbox := vc.boxFns(ct)
				if !p.declared[unbox] {
					continue
				}
				n.elems = append(n.elems, p.build(ct, "("+unbox+" (i-val "+term+"))", depth+1))
				n.altTags = append(n.altTags, i+1)
			}
		}
	default:
		n.kind = "other"
		n.unsup = "type " + tt.String()
	}
	return n
}

// buildAt plans the object of type t stored at reference ref in the initial heap.
func (p *xplan) buildAt(t types.Type, ref string, depth int) *xnode {
	vc := p.vc
	if s, ok := structOf(t); ok {
		n := &xnode{t: t, kind: "struct"}
		for i := 0; i < s.NumFields(); i++ {
			ft := s.Field(i).Type()
			_, isS := structOf(ft)
			_, isA := arrayOf(ft)
			switch {
			case isS || isA:
				n.fields = append(n.fields, p.buildAt(ft, subRef(ref, i), depth))
			default:
				h0, ok := p.heapInit(vc.fieldHV(t, i))
				if !ok {
					n.fields = append(n.fields, &xnode{t: ft, kind: "zero"})
					continue
				}
				n.fields = append(n.fields, p.build(ft, "(select "+h0+" "+ref+")", depth))
			}
		}
		return n
	}
	if a, ok := arrayOf(t); ok {
		h0, ok := p.heapInit(vc.arrHV(a.Elem()))
		if !ok {
			return &xnode{t: t, kind: "zero"}
		}
		return p.build(t, "(select "+h0+" "+ref+")", depth)
	}
	h0, ok := p.heapInit(vc.cellHV(t))
	if !ok {
		return &xnode{t: t, kind: "zero"}
	}
	return p.build(t, "(select "+h0+" "+ref+")", depth)
}

// ---------- model values ----------

func smtIntValue(v string, signed bool, bits int) (*big.Int, bool) {
	v = strings.TrimSpace(v)
	switch {
	case strings.HasPrefix(v, "#x"):
		n, ok := new(big.Int).SetString(v[2:], 16)
		if ok && signed && n.Bit(bits-1) == 1 {
			n.Sub(n, pow2big(bits))
		}
		return n, ok
	case strings.HasPrefix(v, "#b"):
		n, ok := new(big.Int).SetString(v[2:], 2)
		if ok && signed && n.Bit(bits-1) == 1 {
			n.Sub(n, pow2big(bits))
		}
		return n, ok
	case strings.HasPrefix(v, "(_ bv"):
		f := strings.Fields(v[5:])
		n, ok := new(big.Int).SetString(f[0], 10)
		if ok && signed && n.Bit(bits-1) == 1 {
			n.Sub(n, pow2big(bits))
		}
		return n, ok
	case strings.HasPrefix(v, "(-"):
		in := strings.TrimSpace(strings.TrimSuffix(strings.TrimPrefix(v, "(-"), ")"))
		n, ok := new(big.Int).SetString(in, 10)
		if ok {
			n.Neg(n)
		}
		return n, ok
	}
	n, ok := new(big.Int).SetString(v, 10)
	return n, ok
}

// ---------- rendering ----------

type goRender struct {
	vc       *VC
	pkg      *types.Package
	imports  map[string]string // path -> name
	stmts    []string
	ptrVars  map[string]string // model ref -> variable
	absRank  map[string]int
	nvar     int
	problems []string
}

func (g *goRender) typeStr(t types.Type) string {
	return types.TypeString(t, func(p *types.Package) string {
		if p == g.pkg {
			return ""
		}
		g.imports[p.Path()] = p.Name()
		return p.Name()
	})
}

func (g *goRender) foreignOpaque(t types.Type) bool {
	// struct types of other packages with unexported fields cannot be built
	if nt, ok := types.Unalias(t).(*types.Named); ok && nt.Obj().Pkg() != nil && nt.Obj().Pkg() != g.pkg {
		if s, ok := structOf(t); ok {
			for i := 0; i < s.NumFields(); i++ {
				if !s.Field(i).Exported() {
					return true
				}
			}
		}
	}
	return false
}

// mirror returns an anonymous struct type with the layout of the struct type t
// (same field names and types); used to reach unexported fields of other
// packages in replay tests through unsafe.Pointer.
func (g *goRender) mirror(t types.Type) string {
	s, _ := structOf(t)
	g.imports["unsafe"] = "unsafe"
	var fs []string
	for i := 0; i < s.NumFields(); i++ {
		f := s.Field(i)
		fs = append(fs, mirrorName(f)+" "+g.typeStr(f.Type()))
	}
	return "struct{" + strings.Join(fs, "; ") + "}"
}

func collectAbs(n *xnode, set map[string]bool) {
	if n == nil {
		return
	}
	if n.kind == "absstr" && n.val != "" {
		set[n.val] = true
	}
	for _, f := range n.fields {
		collectAbs(f, set)
	}
	for _, e := range n.elems {
		collectAbs(e, set)
	}
	collectAbs(n.pointee, set)
}

func (g *goRender) rankAbs(roots []*xnode) {
	set := map[string]bool{}
	for _, r := range roots {
		collectAbs(r, set)
	}
	type kv struct {
		s string
		n *big.Int
	}
	var vals []kv
	for s := range set {
		n, ok := smtIntValue(s, true, 64)
		if ok {
			vals = append(vals, kv{s, n})
		}
	}
	sort.Slice(vals, func(i, j int) bool { return vals[i].n.Cmp(vals[j].n) < 0 })
	g.absRank = map[string]int{}
	for i, v := range vals {
		g.absRank[v.s] = i + 1
		if v.n.Sign() == 0 {
			g.absRank[v.s] = 0
		}
	}
}

func (g *goRender) expr(n *xnode) string {
	if n == nil {
		return "nil"
	}
	ts := g.typeStr(n.t)
	switch n.kind {
	case "zero":
		return "*new(" + ts + ")"
	case "int":
		bits, signed := intInfo(n.t)
		v, ok := smtIntValue(n.val, signed, bits)
		if !ok {
			g.problems = append(g.problems, "no value for "+n.term)
			v = big.NewInt(0)
		}
		lo, hi := typeRange(n.t)
		if v.Cmp(lo) < 0 || v.Cmp(hi) > 0 {
			g.problems = append(g.problems, "value out of type range")
			v = big.NewInt(0)
		}
		return ts + "(" + v.String() + ")"
	case "bool":
		if strings.TrimSpace(n.val) == "true" {
			return "true"
		}
		return "false"
	case "float":
		return ts + "(0)"
	case "absstr":
		r, ok := g.absRank[n.val]
		if !ok || r == 0 {
			return ts + `("")`
		}
		return ts + "(" + strconv.Quote(fmt.Sprintf("k%04d", r)) + ")"
	case "str":
		ln, ok := smtIntValue(n.val, true, 64)
		if !ok || ln.Sign() < 0 || ln.Int64() > int64(len(n.elems)) {
			g.problems = append(g.problems, "string length outside the small scope")
			return ts + `("")`
		}
		var b []byte
		for i := 0; i < int(ln.Int64()); i++ {
			v, ok := smtIntValue(n.elems[i].val, false, 8)
			if !ok {
				v = big.NewInt(0)
			}
			b = append(b, byte(v.Int64()))
		}
		return ts + "(" + strconv.Quote(string(b)) + ")"
	case "iface":
		tag, _ := smtIntValue(n.fields[0].val, true, 64)
		val, _ := smtIntValue(n.fields[1].val, true, 64)
		if tag == nil || tag.Sign() == 0 {
			return ts + "(nil)"
		}
		if val == nil {
			val = big.NewInt(0)
		}
		for i, alt := range n.altTags {
			if tag.IsInt64() && int(tag.Int64()) == alt {
				return ts + "(" + g.expr(n.elems[i]) + ")"
			}
		}
		if u, ok := n.t.Underlying().(*types.Interface); !ok || u.NumMethods() > 0 {
			g.problems = append(g.problems, "cannot construct a value of interface "+ts)
			return ts + "(nil)"
		}
		// an opaque comparable stand-in: equal iff dynamic type and payload are equal in the model
		return ts + "([2]int64{" + tag.String() + ", " + val.String() + "})"
	case "struct":
		s, _ := structOf(n.t)
		if g.foreignOpaque(n.t) {
			allZero := true
			for _, f := range n.fields {
				if f.kind != "zero" {
					allZero = false
				}
			}
			if allZero || strings.HasPrefix(ts, "sync.") || strings.HasPrefix(ts, "atomic.") {
				return "*new(" + ts + ")" // zero value (e.g. sync.Mutex)
			}
			// unexported fields of another package: fill a mirror struct of
			// identical layout and reinterpret it
			var fs []string
			for i, f := range n.fields {
				if f.kind == "zero" || s.Field(i).Name() == "_" {
					continue
				}
				fs = append(fs, mirrorName(s.Field(i))+": "+g.expr(f))
			}
			m := g.mirror(n.t)
			return "func() " + ts + " { m := " + m + "{" + strings.Join(fs, ", ") + "}; return *(*" + ts + ")(unsafe.Pointer(&m)) }()"
		}
		var fs []string
		for i, f := range n.fields {
			if f.kind == "zero" {
				continue
			}
			name := s.Field(i).Name()
			if name == "_" {
				continue
			}
			fs = append(fs, name+": "+g.expr(f))
		}
		return ts + "{" + strings.Join(fs, ", ") + "}"
	case "array":
		var es []string
		for i, e := range n.elems {
			es = append(es, fmt.Sprintf("%d: %s", i, g.expr(e)))
		}
		return ts + "{" + strings.Join(es, ", ") + "}"
	case "slice":
		ln, ok := smtIntValue(n.val, true, 64)
		cp, ok2 := smtIntValue(n.fields[0].val, true, 64)
		if !ok || !ok2 || ln.Sign() < 0 || cp.Cmp(ln) < 0 || cp.Int64() > 64 {
			g.problems = append(g.problems, "slice length outside the small scope")
			return ts + "(nil)"
		}
		if ln.Sign() == 0 && strings.Contains(n.refV, "mk-ref 0 0") {
			return ts + "(nil)"
		}
		if int(ln.Int64()) > len(n.elems) && len(n.elems) > 0 {
			g.problems = append(g.problems, "slice length outside the small scope")
			return ts + "(nil)"
		}
		var es []string
		for i := 0; i < int(ln.Int64()) && i < len(n.elems); i++ {
			es = append(es, g.expr(n.elems[i]))
		}
		return "append(make(" + ts + ", 0, " + cp.String() + "), []" + g.typeStr(n.t.Underlying().(*types.Slice).Elem()) + "{" + strings.Join(es, ", ") + "}...)"
	case "ptr":
		if strings.Contains(n.refV, "mk-ref 0 0") || n.refV == "nil" || n.pointee == nil {
			return "(" + ts + ")(nil)"
		}
		if v, ok := g.ptrVars[n.refV]; ok {
			return v
		}
		g.nvar++
		v := fmt.Sprintf("obj%d", g.nvar)
		g.ptrVars[n.refV] = v
		el := n.t.Underlying().(*types.Pointer).Elem()
		g.stmts = append(g.stmts, fmt.Sprintf("%s := new(%s)", v, g.typeStr(el)))
		g.stmts = append(g.stmts, fmt.Sprintf("*%s = %s", v, g.expr(n.pointee)))
		return v
	}
	g.problems = append(g.problems, "cannot render "+n.kind+" "+ts+" "+n.unsup)
	return "*new(" + ts + ")"
}
