package main

// Contract expression language: lexer + Pratt parser.
//
//   e ::= forall x [T], y [T] :: e | exists ... :: e
//       | e ==> e | e <==> e | e || e | e && e | !e
//       | e (==|!=|<|<=|>|>=) e      (chains a <= b < c are expanded)
//       | e (+|-|*|/|%|&|'|'|^|<<|>>|&^) e | -e | ^e
//       | e ? e : e
//       | e[e] | e[e:e] | e.f | f(e,...) | old(e) | ( e ) | literal | ident
//
// Tokenised with go/scanner; "==>", "<==>", "::", "?" are assembled here.

import (
	"fmt"
	"go/scanner"
	"go/token"
	"strconv"
	"strings"
)

type CExpr interface{ String() string }

type (
	CIdent struct{ Name string }
	CInt   struct{ V string } // decimal text (big ok)
	CStr   struct{ V string }
	CBool  struct{ V bool }
	CUn    struct {
		Op string
		X  CExpr
	}
	CBin struct {
		Op   string
		X, Y CExpr
	}
	CCond  struct{ C, A, B CExpr }
	CIndex struct{ X, I CExpr }
	CSlice struct{ X, Lo, Hi CExpr }
	CSel   struct {
		X CExpr
		F string
	}
	CCall struct {
		F    string
		Args []CExpr
	}
	CQuant struct {
		Forall bool
		Vars   []CVar
		Body   CExpr
	}
)

type CVar struct{ Name, Type string }

func (e *CIdent) String() string { return e.Name }
func (e *CInt) String() string   { return e.V }
func (e *CStr) String() string   { return strconv.Quote(e.V) }
func (e *CBool) String() string  { return fmt.Sprint(e.V) }
func (e *CUn) String() string    { return "(" + e.Op + e.X.String() + ")" }
func (e *CBin) String() string   { return "(" + e.X.String() + " " + e.Op + " " + e.Y.String() + ")" }
func (e *CCond) String() string {
	return "(" + e.C.String() + " ? " + e.A.String() + " : " + e.B.String() + ")"
}
func (e *CIndex) String() string { return e.X.String() + "[" + e.I.String() + "]" }
func (e *CSlice) String() string {
	lo, hi := "", ""
	if e.Lo != nil {
		lo = e.Lo.String()
	}
	if e.Hi != nil {
		hi = e.Hi.String()
	}
	return e.X.String() + "[" + lo + ":" + hi + "]"
}
func (e *CSel) String() string { return e.X.String() + "." + e.F }
func (e *CCall) String() string {
	var a []string
	for _, x := range e.Args {
		a = append(a, x.String())
	}
	return e.F + "(" + strings.Join(a, ", ") + ")"
}
func (e *CQuant) String() string {
	q := "exists"
	if e.Forall {
		q = "forall"
	}
	var vs []string
	for _, v := range e.Vars {
		vs = append(vs, strings.TrimSpace(v.Name+" "+v.Type))
	}
	return "(" + q + " " + strings.Join(vs, ", ") + " :: " + e.Body.String() + ")"
}

type ctok struct {
	kind string // "id","int","str","op","eof"
	text string
}

func clex(src string) ([]ctok, error) {
	var s scanner.Scanner
	fset := token.NewFileSet()
	file := fset.AddFile("", fset.Base(), len(src))
	var errs []string
	s.Init(file, []byte(src), func(pos token.Position, msg string) {
		if !strings.Contains(msg, "illegal character") {
			errs = append(errs, msg)
		}
	}, 0)
	var toks []ctok
	for {
		_, tok, lit := s.Scan()
		if tok == token.EOF {
			break
		}
		switch {
		case tok == token.SEMICOLON:
			if lit == "\n" {
				continue
			}
			toks = append(toks, ctok{"op", ";"})
		case tok == token.IDENT:
			toks = append(toks, ctok{"id", lit})
		case tok == token.INT:
			toks = append(toks, ctok{"int", lit})
		case tok == token.CHAR:
			toks = append(toks, ctok{"char", lit})
		case tok == token.STRING:
			toks = append(toks, ctok{"str", lit})
		case tok == token.ILLEGAL:
			toks = append(toks, ctok{"op", lit})
		case tok.IsKeyword():
			toks = append(toks, ctok{"id", tok.String()})
		default:
			toks = append(toks, ctok{"op", tok.String()})
		}
	}
	if len(errs) > 0 {
		return nil, fmt.Errorf("lex: %s", strings.Join(errs, "; "))
	}
	// assemble compound operators
	var out []ctok
	for i := 0; i < len(toks); i++ {
		t := toks[i]
		nx := func(k int) string {
			if i+k < len(toks) && toks[i+k].kind == "op" {
				return toks[i+k].text
			}
			return ""
		}
		if t.kind == "op" {
			switch {
			case t.text == "<=" && nx(1) == "=" && nx(2) == ">": // <==>  lexed as <= = >
				out = append(out, ctok{"op", "<==>"})
				i += 2
				continue
			case t.text == "==" && nx(1) == ">":
				out = append(out, ctok{"op", "==>"})
				i++
				continue
			case t.text == ":" && nx(1) == ":":
				out = append(out, ctok{"op", "::"})
				i++
				continue
			}
		}
		out = append(out, t)
	}
	out = append(out, ctok{"eof", ""})
	return out, nil
}

type cparser struct {
	toks []ctok
	pos  int
}

func ParseCExpr(src string) (e CExpr, err error) {
	toks, err := clex(src)
	if err != nil {
		return nil, err
	}
	p := &cparser{toks: toks}
	defer func() {
		if r := recover(); r != nil {
			if pe, ok := r.(parseErr); ok {
				err = fmt.Errorf("parse %q: %s", src, string(pe))
				return
			}
			panic(r)
		}
	}()
	e = p.expr()
	if p.peek().kind != "eof" {
		p.fail("unexpected " + p.peek().text)
	}
	return e, nil
}

type parseErr string

func (p *cparser) fail(msg string)       { panic(parseErr(msg)) }
func (p *cparser) peek() ctok            { return p.toks[p.pos] }
func (p *cparser) next() ctok            { t := p.toks[p.pos]; p.pos++; return t }
func (p *cparser) isOp(s string) bool    { t := p.peek(); return t.kind == "op" && t.text == s }
func (p *cparser) isId(s string) bool    { t := p.peek(); return t.kind == "id" && t.text == s }
func (p *cparser) accept(s string) bool  { if p.isOp(s) { p.pos++; return true }; return false }
func (p *cparser) expect(s string)       { if !p.accept(s) { p.fail("expected " + s + " got " + p.peek().text) } }

// expr: quantifier | iff
func (p *cparser) expr() CExpr {
	if p.isId("forall") || p.isId("exists") {
		q := &CQuant{Forall: p.next().text == "forall"}
		for {
			t := p.next()
			if t.kind != "id" {
				p.fail("quantifier variable expected")
			}
			v := CVar{Name: t.text}
			// optional type: tokens up to , or ::
			var ty []string
			for !p.isOp(",") && !p.isOp("::") && p.peek().kind != "eof" {
				ty = append(ty, p.next().text)
			}
			v.Type = strings.Join(ty, "")
			q.Vars = append(q.Vars, v)
			if p.accept(",") {
				continue
			}
			p.expect("::")
			break
		}
		// propagate types backwards: "i, j int" style
		for i := len(q.Vars) - 2; i >= 0; i-- {
			if q.Vars[i].Type == "" {
				q.Vars[i].Type = q.Vars[i+1].Type
			}
		}
		q.Body = p.expr()
		return q
	}
	return p.cond()
}

func (p *cparser) cond() CExpr {
	c := p.iff()
	if p.accept("?") {
		a := p.expr()
		p.expect(":")
		b := p.expr()
		return &CCond{c, a, b}
	}
	return c
}

func (p *cparser) iff() CExpr {
	x := p.implies()
	for p.accept("<==>") {
		y := p.implies()
		x = &CBin{"<==>", x, y}
	}
	return x
}

func (p *cparser) implies() CExpr {
	x := p.or()
	if p.accept("==>") {
		var y CExpr
		if p.isId("forall") || p.isId("exists") {
			y = p.expr()
		} else {
			y = p.implies() // right assoc
		}
		return &CBin{"==>", x, y}
	}
	return x
}

func (p *cparser) or() CExpr {
	x := p.and()
	for p.accept("||") {
		x = &CBin{"||", x, p.andOrQuant()}
	}
	return x
}

func (p *cparser) andOrQuant() CExpr {
	if p.isId("forall") || p.isId("exists") {
		return p.expr()
	}
	return p.and()
}

func (p *cparser) and() CExpr {
	x := p.cmp()
	for p.accept("&&") {
		if p.isId("forall") || p.isId("exists") {
			x = &CBin{"&&", x, p.expr()}
			return x
		}
		x = &CBin{"&&", x, p.cmp()}
	}
	return x
}

var cmpOps = map[string]bool{"==": true, "!=": true, "<": true, "<=": true, ">": true, ">=": true}

func (p *cparser) cmp() CExpr {
	x := p.addsub()
	var res CExpr
	for p.peek().kind == "op" && cmpOps[p.peek().text] {
		op := p.next().text
		y := p.addsub()
		c := &CBin{op, x, y}
		if res == nil {
			res = c
		} else {
			res = &CBin{"&&", res, c}
		}
		x = y
	}
	if res != nil {
		return res
	}
	return x
}

func (p *cparser) addsub() CExpr {
	x := p.muldiv()
	for p.peek().kind == "op" {
		switch p.peek().text {
		case "+", "-", "|", "^", "++":
			op := p.next().text
			x = &CBin{op, x, p.muldiv()}
			continue
		}
		break
	}
	return x
}

func (p *cparser) muldiv() CExpr {
	x := p.unary()
	for p.peek().kind == "op" {
		switch p.peek().text {
		case "*", "/", "%", "&", "<<", ">>", "&^":
			op := p.next().text
			x = &CBin{op, x, p.unary()}
			continue
		}
		break
	}
	return x
}

func (p *cparser) unary() CExpr {
	if p.peek().kind == "op" {
		switch p.peek().text {
		case "!", "-", "^":
			op := p.next().text
			return &CUn{op, p.unary()}
		}
	}
	return p.postfix()
}

func (p *cparser) postfix() CExpr {
	x := p.primary()
	for {
		switch {
		case p.accept("["):
			var lo, hi CExpr
			if p.accept(":") {
				if !p.isOp("]") {
					hi = p.expr()
				}
				p.expect("]")
				x = &CSlice{x, nil, hi}
				continue
			}
			lo = p.expr()
			if p.accept(":") {
				if !p.isOp("]") {
					hi = p.expr()
				}
				p.expect("]")
				x = &CSlice{x, lo, hi}
				continue
			}
			p.expect("]")
			x = &CIndex{x, lo}
		case p.accept("."):
			t := p.next()
			if t.kind != "id" {
				p.fail("field name expected")
			}
			x = &CSel{x, t.text}
		default:
			return x
		}
	}
}

func (p *cparser) primary() CExpr {
	t := p.next()
	switch t.kind {
	case "int":
		v := t.text
		if strings.HasPrefix(v, "0x") || strings.HasPrefix(v, "0X") || strings.HasPrefix(v, "0b") || strings.Contains(v, "_") {
			n, ok := parseBigInt(v)
			if !ok {
				p.fail("bad int " + v)
			}
			v = n
		}
		return &CInt{v}
	case "char":
		r, _, _, err := strconv.UnquoteChar(t.text[1:len(t.text)-1], '\'')
		if err != nil {
			p.fail("bad char " + t.text)
		}
		return &CInt{strconv.Itoa(int(r))}
	case "str":
		s, err := strconv.Unquote(t.text)
		if err != nil {
			p.fail("bad string " + t.text)
		}
		return &CStr{s}
	case "id":
		switch t.text {
		case "true":
			return &CBool{true}
		case "false":
			return &CBool{false}
		case "forall", "exists":
			// a quantifier in operand position extends as far to the right as possible
			p.pos--
			return p.expr()
		}
		name := t.text
		// qualified function name pkg.F( is handled as CSel then call? keep simple:
		if p.isOp("(") {
			p.next()
			var args []CExpr
			if !p.isOp(")") {
				for {
					args = append(args, p.expr())
					if !p.accept(",") {
						break
					}
				}
			}
			p.expect(")")
			return &CCall{name, args}
		}
		return &CIdent{name}
	case "op":
		if t.text == "(" {
			e := p.expr()
			p.expect(")")
			return e
		}
	}
	p.fail("unexpected token " + t.text)
	return nil
}

func parseBigInt(s string) (string, bool) {
	s = strings.ReplaceAll(s, "_", "")
	base := 10
	switch {
	case strings.HasPrefix(s, "0x"), strings.HasPrefix(s, "0X"):
		base, s = 16, s[2:]
	case strings.HasPrefix(s, "0b"):
		base, s = 2, s[2:]
	}
	n, ok := newBig().SetString(s, base)
	if !ok {
		return "", false
	}
	return n.String(), true
}
