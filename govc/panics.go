package main

// Panics as control flow. Only functions that defer a call which uses
// recover() are executed this way (everything else keeps the simpler rule:
// a panic site is an obligation or an allowed dead end). In such a function
//   - an explicit panic, and a call of a callee whose contract says maypanic /
//     panics_if, end the current path in a *panic exit* (state + panic value);
//   - at the end the pending deferred calls are run on the panic exits with
//     recover() live: recover() returns the panic value and stops the panic;
//   - what is still panicking afterwards leaves the function (checked against
//     the contract's on_panic clauses), what was recovered returns normally
//     with zero results (functions with named results are outside the subset).

import (
	"fmt"
	"go/types"
	"sort"

	"golang.org/x/tools/go/ssa"
)

type panicExit struct {
	st   *State
	site ssa.Instruction // instruction of the handling function at which the panic surfaced
}

// handlesPanics: fn defers (directly) a call whose callee uses recover.
func handlesPanics(fn *ssa.Function) bool {
	for _, b := range fn.Blocks {
		for _, in := range b.Instrs {
			if d, ok := in.(*ssa.Defer); ok {
				if callee := d.Call.StaticCallee(); callee != nil && usesRecover(callee) {
					return true
				}
			}
		}
	}
	return false
}

// raise records a panic with value pv (an Iface term) on the current path.
func (vc *VC) raise(st *State, pv string) {
	ps := st.clone()
	ps.panicking = "true"
	ps.pval = pv
	var site ssa.Instruction
	if vc.panicOwner != nil {
		site = vc.panicOwner.cur
	}
	*vc.panicSink = append(*vc.panicSink, &panicExit{st: ps, site: site})
	st.dead = true
}

// freshPanicValue: an unknown non-nil panic value.
func (vc *VC) freshPanicValue() string {
	n := vc.fresh("pval")
	vc.declare(n, SIface)
	vc.assume("(not (= (i-tag " + n + ") 0))")
	return n
}

// pendingDefers: the deferred calls of fn that are certainly registered when
// control is at instruction site, in registration order.
func pendingDefers(f *frame, fn *ssa.Function, site ssa.Instruction) []*ssa.Defer {
	var pending []*ssa.Defer
	if site == nil {
		return nil
	}
	sb := site.Block()
	for _, b := range fn.Blocks {
		for k, x := range b.Instrs {
			d, ok := x.(*ssa.Defer)
			if !ok || f.isUnlock(d) {
				continue
			}
			if b.Dominates(sb) && (b != sb || k < indexOf(sb, site)) {
				pending = append(pending, d)
			} else if reaches(b, sb) {
				unsup("defer that is not executed on every path to a panic site")
			}
		}
	}
	sort.SliceStable(pending, func(i, j int) bool {
		bi, bj := pending[i].Block(), pending[j].Block()
		if bi == bj {
			return indexOf(bi, pending[i]) < indexOf(bj, pending[j])
		}
		return bi.Dominates(bj)
	})
	return pending
}

// unwind runs the pending deferred calls on the collected panic exits of the
// handling function and returns the states that return normally after a
// recover and the states in which the panic continues.
func (f *frame) unwind(exits []*panicExit) (recovered, still []*State) {
	vc := f.vc
	// group by the list of pending defers
	type group struct {
		defers []*ssa.Defer
		sts    []*State
	}
	var groups []*group
	for _, e := range exits {
		pd := pendingDefers(f, f.fn, e.site)
		key := fmt.Sprint(pd)
		var g *group
		for _, x := range groups {
			if fmt.Sprint(x.defers) == key {
				g = x
			}
		}
		if g == nil {
			g = &group{defers: pd}
			groups = append(groups, g)
		}
		g.sts = append(g.sts, e.st)
	}
	for _, g := range groups {
		var conds []string
		for _, s := range g.sts {
			conds = append(conds, s.reach)
		}
		S := vc.mergeStates(g.sts, conds)
		S.dead = false
		S = f.runDefers(S, g.defers)
		if S == nil {
			continue
		}
		pk := S.panicking
		if pk == "" {
			pk = "false"
		}
		out := S.clone()
		out.reach = vc.nameBool("panicout", and(S.reach, pk))
		still = append(still, out)
		rec := S.clone()
		rec.reach = vc.nameBool("recovered", and(S.reach, not(pk)))
		rec.panicking, rec.recov = "", "true"
		recovered = append(recovered, rec)
	}
	return recovered, still
}

// runDefers executes the deferred calls (given in registration order) last
// first on state S, which may or may not be panicking. recover() is live. A
// panic raised inside a deferred call replaces the one in flight and continues
// with the remaining deferred calls. Returns the resulting state (nil: no path
// survives).
func (f *frame) runDefers(S *State, defers []*ssa.Defer) *State {
	vc := f.vc
	for k := len(defers) - 1; k >= 0; k-- {
		d := defers[k]
		var inner []*panicExit
		saved, savedOwner, savedIn := vc.panicSink, vc.panicOwner, vc.inDefers
		vc.panicSink, vc.panicOwner = &inner, f
		vc.inDefers = true
		f.call(S, d, d.Common(), d.Pos())
		vc.inDefers = savedIn
		vc.panicSink, vc.panicOwner = saved, savedOwner
		var sts []*State
		var cs []string
		if !S.dead {
			sts, cs = append(sts, S), append(cs, S.reach)
		}
		for _, e := range inner {
			sts, cs = append(sts, e.st), append(cs, e.st.reach)
		}
		if len(sts) == 0 {
			return nil
		}
		S = vc.mergeStates(sts, cs)
		S.dead = false
	}
	return S
}

// checkPanicExits: the obligations of the exits by panic of the function
// under contract (only present when panics are modelled as control flow).
func (vc *VC) checkPanicExits(f0 *frame, c *Contract) {
	if len(vc.panicOut) == 0 {
		return
	}
	var conds []string
	for _, s := range vc.panicOut {
		conds = append(conds, s.reach)
	}
	pexit := vc.mergeStates(vc.panicOut, conds)
	pexit.dead = false
	pos := f0.fn.Pos()
	sc := f0.specCtx(pexit, vc.oldState)
	sc.bound = map[string]*Term{}
	f0.bindParams(sc)
	if o := vc.oblige(pexit, "cover.panic_exit", "false", "an exit by panic is reachable (vacuity guard)", pos, false); o != nil {
		o.Cover = true
	}
	if c.PanicsIf != nil {
		n := *sc
		n.st = vc.oldState
		vc.oblige(pexit, "panic.only_if", n.evalBool(c.PanicsIf.Expr), "a panic leaves the function only when: "+c.PanicsIf.Src, pos, false)
	}
	if !c.MayPanic && c.PanicsIf == nil && len(c.OnPanic) == 0 {
		vc.oblige(pexit, "panic", "false", "no panic leaves the function", pos, false)
	}
	for _, e := range c.OnPanic {
		vc.oblige(pexit, "panic.post."+e.Name, sc.evalBool(e.Expr), "on exit by panic: "+e.Src, pos, e.Top)
	}
}

// cellPrivate: the cell allocated for a local variable is reachable only from
// this function and from function literals of it that are called or deferred
// directly (never passed on or stored), so a call with "modifies all" cannot
// write it.
func cellPrivate(a *ssa.Alloc) bool {
	if a.Referrers() == nil {
		return false
	}
	if _, isStruct := structOf(a.Type().Underlying().(*types.Pointer).Elem()); isStruct {
		return false
	}
	for _, r := range *a.Referrers() {
		switch x := r.(type) {
		case *ssa.UnOp, *ssa.DebugRef:
		case *ssa.Store:
			if x.Val == ssa.Value(a) {
				return false // the address itself is stored somewhere
			}
		case *ssa.MakeClosure:
			if x.Referrers() == nil {
				return false
			}
			for _, u := range *x.Referrers() {
				switch c := u.(type) {
				case *ssa.Defer:
					if c.Call.Value != ssa.Value(x) {
						return false
					}
				case *ssa.Call:
					if c.Call.Value != ssa.Value(x) {
						return false
					}
				case *ssa.DebugRef:
				default:
					return false
				}
			}
		default:
			return false
		}
	}
	return true
}
