package main

import (
	"bytes"
	"context"
	"fmt"
	"os"
	"os/exec"
	"path/filepath"
	"strings"
	"sync"
	"time"
)

type solverSpec struct {
	name string
	args func(file string, timeoutS int) []string
}

var solvers = []solverSpec{
	{"z3-new", func(f string, t int) []string { return []string{"z3-new", fmt.Sprintf("-T:%d", t), f} }},
	{"z3", func(f string, t int) []string { return []string{"z3", fmt.Sprintf("-T:%d", t), f} }},
	{"cvc5", func(f string, t int) []string {
		return []string{"cvc5", "--produce-models", fmt.Sprintf("--tlimit=%d", t*1000), f}
	}},
}

type solveCfg struct {
	dir      string
	quickS   int // first attempt (single solver)
	timeoutS int // race timeout
	workers  int
	keep     bool
	noRetry  bool
	// crossCheck (thorough tier): every discharged obligation is given to the
	// other solvers as well; a solver that answers sat where another answered
	// unsat is a disagreement, reported as an error (never silently accepted)
	crossCheck bool
	mustDecide map[string]bool // baseline obligations (fast on the unchanged tree)
	slowDecide map[string]bool // baseline obligations that needed more than 5 s on the unchanged tree
}

func buildQuery(fr *FuncResult, o *Obligation, values []string) string {
	var b strings.Builder
	b.WriteString(fr.Prelude)
	for _, c := range fr.Cmds[:o.Prefix] {
		b.WriteString(c)
		b.WriteByte('\n')
	}
	b.WriteString("(assert " + o.Reach + ")\n")
	if !o.Cover {
		goal, sks := skolemizeGoal(o.Goal, 0)
		for _, sk := range sks {
			b.WriteString("(declare-fun " + sk.name + " () " + sk.sort + ")\n")
		}
		if len(sks) == 0 {
			sort := "Int"
			if fr.Mode == "bv" {
				sort = "(_ BitVec 64)"
			}
			sks = goalIndexTerms(goal, sort)
			if fr.Mode == "bv" {
				// bit-vector index arithmetic defeats the solvers' pattern matching:
				// also offer the element indexes read by the most recent ground facts
				seen := map[string]bool{}
				for _, sk := range sks {
					seen[sk.name] = true
				}
				for i := o.Prefix - 1; i >= 0 && len(sks) < 6; i-- {
					c := fr.Cmds[i]
					if !strings.HasPrefix(c, "(assert ") || strings.Contains(c, "(forall ") {
						continue
					}
					for _, sk := range goalIndexTerms(c, sort) {
						if !seen[sk.name] && len(sks) < 6 {
							seen[sk.name] = true
							sks = append(sks, sk)
						}
					}
				}
			}
		}
		if len(sks) > 0 {
			n := 0
			for _, c := range fr.Cmds[:o.Prefix] {
				if h := instantiateAt(c, sks); h != "" && n < 400 {
					b.WriteString(h + "\n")
					n++
				}
			}
		}
		b.WriteString("(assert (not " + goal + "))\n")
	}
	b.WriteString("(check-sat)\n")
	if len(values) > 0 {
		b.WriteString("(get-value (" + strings.Join(values, " ") + "))\n")
	}
	return b.String()
}

func runSolver(ctx context.Context, s solverSpec, file string, timeoutS int) (status string, out string, secs float64) {
	args := s.args(file, timeoutS)
	cctx, cancel := context.WithTimeout(ctx, time.Duration(timeoutS+2)*time.Second)
	defer cancel()
	cmd := exec.CommandContext(cctx, args[0], args[1:]...)
	var buf bytes.Buffer
	cmd.Stdout = &buf
	cmd.Stderr = &buf
	t0 := time.Now()
	_ = cmd.Run()
	secs = time.Since(t0).Seconds()
	out = buf.String()
	first := strings.TrimSpace(out)
	if i := strings.IndexByte(first, '\n'); i >= 0 {
		first = strings.TrimSpace(first[:i])
	}
	switch first {
	case "unsat", "sat", "unknown":
		status = first
	case "timeout":
		status = "timeout"
	default:
		if cctx.Err() != nil {
			status = "timeout"
		} else if strings.Contains(out, "interrupted") || strings.Contains(out, "timeout") {
			status = "timeout"
		} else {
			status = "error"
		}
	}
	return
}

// solveOne decides one obligation: z3-new alone first, then all three raced.
func solveOne(cfg *solveCfg, fr *FuncResult, o *Obligation, values []string) {
	file := filepath.Join(cfg.dir, sanitize(o.Name)+".smt2")
	q := buildQuery(fr, o, values)
	o.Query = file
	if err := os.WriteFile(file, []byte(q), 0o644); err != nil {
		o.Status = "error"
		o.Model = err.Error()
		return
	}
	t0 := time.Now()
	st, out, _ := runSolver(context.Background(), solvers[0], file, cfg.quickS)
	if st == "unsat" || st == "sat" || o.Cover {
		// vacuity covers only need "not unsat": one quick attempt is enough
		o.Status, o.Solver, o.Model, o.Secs = st, solvers[0].name, out, time.Since(t0).Seconds()
		crossCheck(cfg, o, file)
		if !cfg.keep && st == "unsat" {
			os.Remove(file)
		}
		return
	}
	// race
	ctx, cancel := context.WithCancel(context.Background())
	defer cancel()
	type r struct {
		st, out, solver string
	}
	ch := make(chan r, len(solvers))
	for _, s := range solvers {
		s := s
		go func() {
			st, out, _ := runSolver(ctx, s, file, cfg.timeoutS)
			ch <- r{st, out, s.name}
		}()
	}
	final := r{st: "timeout"}
	var errs []string
	for range solvers {
		x := <-ch
		if x.st == "unsat" || x.st == "sat" {
			final = x
			cancel()
			break
		}
		if x.st == "unknown" && final.st == "timeout" {
			final = x
		}
		if x.st == "error" {
			errs = append(errs, x.solver+": "+firstLines(x.out, 3))
		}
	}
	if final.st == "timeout" && len(errs) == len(solvers) {
		final.st = "error"
		final.out = strings.Join(errs, "\n")
	}
	o.Status, o.Solver, o.Model, o.Secs = final.st, final.solver, final.out, time.Since(t0).Seconds()
	crossCheck(cfg, o, file)
	if !cfg.keep && o.Status == "unsat" {
		os.Remove(file)
	}
}

// crossCheck (thorough tier): an unsat answer is confirmed with the other
// solvers. A contradicting sat answer turns the obligation into an error.
func crossCheck(cfg *solveCfg, o *Obligation, file string) {
	if !cfg.crossCheck || o.Cover || o.Status != "unsat" || o.Solver == "trivial" {
		return
	}
	type r struct{ st, solver string }
	ch := make(chan r, len(solvers))
	n := 0
	for _, s := range solvers {
		if s.name == o.Solver {
			continue
		}
		n++
		s := s
		go func() {
			st, _, _ := runSolver(context.Background(), s, file, min(cfg.timeoutS, 30))
			ch <- r{st, s.name}
		}()
	}
	for i := 0; i < n; i++ {
		x := <-ch
		switch x.st {
		case "unsat":
			o.Confirmed = append(o.Confirmed, x.solver)
		case "sat":
			o.Status = "error"
			o.Model = "solver disagreement: " + o.Solver + " answered unsat, " + x.solver + " answered sat"
		}
	}
}

func firstLines(s string, n int) string {
	lines := strings.Split(strings.TrimSpace(s), "\n")
	if len(lines) > n {
		lines = lines[:n]
	}
	return strings.Join(lines, " | ")
}

func solveAll(cfg *solveCfg, frs []*FuncResult) {
	type job struct {
		fr *FuncResult
		o  *Obligation
	}
	var jobs []job
	for _, fr := range frs {
		for _, o := range fr.Obls {
			jobs = append(jobs, job{fr, o})
		}
	}
	ch := make(chan job)
	var wg sync.WaitGroup
	for i := 0; i < cfg.workers; i++ {
		wg.Add(1)
		go func() {
			defer wg.Done()
			for j := range ch {
				if j.o.Goal == "true" && !j.o.Cover {
					j.o.Status, j.o.Solver = "unsat", "trivial"
					continue
				}
				solveOne(cfg, j.fr, j.o, modelValues(j.fr, j.o))
			}
		}()
	}
	for _, j := range jobs {
		ch <- j
	}
	close(ch)
	wg.Wait()
	// second chance: an obligation that timed out (a loaded machine makes the
	// wall-clock limits much tighter) is retried with few queries in flight
	// and a limit six times as long before it is reported as not discharged.
	var again []job
	for _, j := range jobs {
		if !j.o.Cover && (j.o.Status == "timeout" || j.o.Status == "unknown") {
			again = append(again, j)
		}
	}
	if len(again) == 0 || cfg.noRetry {
		return
	}
	cfg2 := *cfg
	cfg2.quickS = cfg.timeoutS
	cfg2.timeoutS = max(6*cfg.timeoutS, 120)
	if len(again) > 8 {
		cfg2.timeoutS = max(3*cfg.timeoutS, 60)
	}
	ch2 := make(chan job)
	for i := 0; i < 4; i++ {
		wg.Add(1)
		go func() {
			defer wg.Done()
			for j := range ch2 {
				first := j.o.Secs
				solveOne(&cfg2, j.fr, j.o, modelValues(j.fr, j.o))
				j.o.Secs += first
				j.o.Retried = true
			}
		}()
	}
	for _, j := range again {
		ch2 <- j
	}
	close(ch2)
	wg.Wait()
	// last chance: an obligation that is known to discharge within seconds on
	// the unchanged tree and still has no answer is run alone (nothing else in
	// flight) with a five minute limit; at most a few, ten minutes in total
	deadline := time.Now().Add(10 * time.Minute)
	cfg3 := *cfg
	cfg3.quickS = cfg2.timeoutS
	cfg3.timeoutS = 300
	n := 0
	for _, j := range again {
		if j.o.Status != "timeout" && j.o.Status != "unknown" {
			continue
		}
		if !cfg.mustDecide[j.o.Name] || n >= 4 || time.Now().After(deadline) {
			continue
		}
		n++
		first := j.o.Secs
		solveOne(&cfg3, j.fr, j.o, modelValues(j.fr, j.o))
		j.o.Secs += first
	}
	// long last attempt for `slow` baseline obligations (5..70 s on the unchanged,
	// idle tree): run alone with a 900 s limit, at most 2 of them, 35 minutes in
	// total. One that still has no answer afterwards is reported as no longer
	// discharged; without this a change that makes a slow obligation unprovable
	// (the solvers cannot answer `sat` on quantified bit-vector goals) was only
	// ever "undecided".
	deadline = time.Now().Add(35 * time.Minute)
	cfg4 := *cfg
	cfg4.quickS = cfg2.timeoutS
	cfg4.timeoutS = 900
	n = 0
	for _, j := range again {
		if j.o.Status != "timeout" && j.o.Status != "unknown" {
			continue
		}
		if !cfg.slowDecide[j.o.Name] || n >= 2 || time.Now().After(deadline) {
			continue
		}
		n++
		first := j.o.Secs
		solveOne(&cfg4, j.fr, j.o, modelValues(j.fr, j.o))
		j.o.Secs += first
		j.o.LongTried = true
	}
}

// modelValues: constants whose values are requested with a sat answer
// (parameters and ghost witnesses; scalar sorts only).
func modelValues(fr *FuncResult, o *Obligation) []string {
	var out []string
	for _, c := range fr.Cmds[:o.Prefix] {
		if strings.HasPrefix(c, "(declare-fun p_") || strings.HasPrefix(c, "(declare-fun l_") || strings.HasPrefix(c, "(declare-fun w_") {
			f := strings.Fields(c)
			name := f[1]
			out = append(out, name)
		}
	}
	return out
}
