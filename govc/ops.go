package main

import (
	"fmt"
	"go/token"
	"go/types"
	"math/big"
	"strconv"
	"strings"

	"golang.org/x/tools/go/ssa"
)

func isLit(s string) (int64, bool) {
	n, err := strconv.ParseInt(s, 10, 64)
	return n, err == nil
}

func bvLit(s string) (*big.Int, bool) {
	if strings.HasPrefix(s, "(_ bv") {
		f := strings.Fields(s[5:])
		n, ok := new(big.Int).SetString(f[0], 10)
		return n, ok
	}
	return nil, false
}

func (vc *VC) litVal(s string) (*big.Int, bool) {
	if vc.mode == "bv" {
		return bvLit(s)
	}
	if n, ok := new(big.Int).SetString(s, 10); ok {
		return n, true
	}
	if strings.HasPrefix(s, "(- ") && strings.HasSuffix(s, ")") {
		if n, ok := new(big.Int).SetString(s[3:len(s)-1], 10); ok {
			return n.Neg(n), true
		}
	}
	return nil, false
}

func (vc *VC) binop(st *State, op token.Token, x, y *Term, rt types.Type, pos token.Pos) *Term {
	xt := x.T
	if xt == nil {
		xt = rt
	}
	switch {
	case isBoolType(xt):
		switch op {
		case token.EQL:
			return &Term{"(= " + x.S + " " + y.S + ")", SBool, rt}
		case token.NEQ:
			return &Term{"(not (= " + x.S + " " + y.S + "))", SBool, rt}
		case token.LAND, token.AND:
			return &Term{and(x.S, y.S), SBool, rt}
		case token.LOR, token.OR:
			return &Term{or(x.S, y.S), SBool, rt}
		}
	case isStringType(xt):
		return vc.strBinop(st, op, x, y, rt)
	case isFloatType(xt):
		vc.note("float arithmetic abstracted (result unconstrained)")
		switch op {
		case token.EQL:
			return &Term{"(= " + x.S + " " + y.S + ")", SBool, rt}
		case token.NEQ:
			return &Term{"(not (= " + x.S + " " + y.S + "))", SBool, rt}
		}
		return vc.freshConst("fop", rt)
	case isIntType(xt):
		return vc.intBinop(st, op, x, y, rt, pos)
	}
	// pointers, interfaces, etc: only equality
	switch op {
	case token.EQL:
		return &Term{vc.valEq(x, y), SBool, rt}
	case token.NEQ:
		return &Term{not(vc.valEq(x, y)), SBool, rt}
	}
	unsup("binop %s on %s", op, xt)
	return nil
}

func (vc *VC) valEq(x, y *Term) string {
	// a slice compared with nil: it is the nil slice iff its array reference is nil
	if x.Sort == SSlice && y.Sort != SSlice {
		return "(= (s-ref " + x.S + ") nil)"
	}
	if y.Sort == SSlice && x.Sort != SSlice {
		return "(= (s-ref " + y.S + ") nil)"
	}
	if x.Sort == SSlice && y.Sort == SSlice && (strings.HasPrefix(y.S, "(mk-slice nil ") || strings.HasPrefix(x.S, "(mk-slice nil ")) {
		o := x
		if strings.HasPrefix(x.S, "(mk-slice nil ") {
			o = y
		}
		return "(= (s-ref " + o.S + ") nil)"
	}
	if x.Sort == SStr {
		return "(streq " + x.S + " " + y.S + ")"
	}
	if x.Sort == SIface && y.Sort == SIface {
		return "(= " + x.S + " " + y.S + ")"
	}
	return "(= " + x.S + " " + y.S + ")"
}

func (vc *VC) note(s string) {
	for _, n := range vc.notes {
		if n == s {
			return
		}
	}
	vc.notes = append(vc.notes, s)
}

func (vc *VC) intBinop(st *State, op token.Token, x, y *Term, rt types.Type, pos token.Pos) *Term {
	bits, signed := intInfo(x.T)
	sort := x.Sort
	cmp := func(s string) *Term { return &Term{s, SBool, rt} }
	switch op {
	case token.EQL:
		return cmp("(= " + x.S + " " + y.S + ")")
	case token.NEQ:
		return cmp("(not (= " + x.S + " " + y.S + "))")
	case token.LSS:
		return cmp(vc.lt(x.S, y.S, signed))
	case token.LEQ:
		return cmp(vc.le(x.S, y.S, signed))
	case token.GTR:
		return cmp(vc.lt(y.S, x.S, signed))
	case token.GEQ:
		return cmp(vc.le(y.S, x.S, signed))
	}
	if vc.mode == "bv" {
		return vc.bvBinop(st, op, x, y, rt, pos, bits, signed)
	}
	res := func(s string) *Term { return vc.define("t", &Term{s, sort, rt}) }
	arith := func(s string, what string) *Term {
		if vc.wrap {
			return res(vc.wrapInt(s, rt))
		}
		r := res(s)
		vc.obligeAndAssume(st, "overflow", vc.inRange(r.S, rt), what+" does not overflow "+rt.String(), pos)
		return r
	}
	switch op {
	case token.AND, token.OR, token.XOR, token.AND_NOT:
		// an operand that is a choice between two literals: decide per alternative
		for k, o := range []*Term{y, x} {
			il, ok := vc.iteLit[o.S]
			if !ok {
				continue
			}
			alt := func(lit string) *Term {
				l := &Term{lit, o.Sort, o.T}
				if k == 0 {
					return vc.intBinop(st, op, x, l, rt, pos)
				}
				return vc.intBinop(st, op, l, y, rt, pos)
			}
			a, b := alt(il[1]), alt(il[2])
			return res(ite(il[0], a.S, b.S))
		}
	}
	if op == token.XOR && !signed {
		// x ^ (2^bits - 1) is the complement
		ones := new(big.Int).Sub(pow2big(bits), big.NewInt(1))
		if n, ok := vc.litVal(y.S); ok && n.Cmp(ones) == 0 {
			return res("(- " + ones.String() + " " + x.S + ")")
		}
		if n, ok := vc.litVal(x.S); ok && n.Cmp(ones) == 0 {
			return res("(- " + ones.String() + " " + y.S + ")")
		}
	}
	switch op {
	case token.ADD:
		return arith("(+ "+x.S+" "+y.S+")", "addition")
	case token.SUB:
		return arith("(- "+x.S+" "+y.S+")", "subtraction")
	case token.MUL:
		return arith("(* "+x.S+" "+y.S+")", "multiplication")
	case token.QUO, token.REM:
		vc.obligeAndAssume(st, "div0", "(not (= "+y.S+" 0))", "division by zero", pos)
		if op == token.QUO {
			if signed {
				return arith("(tdiv "+x.S+" "+y.S+")", "division")
			}
			return res("(div " + x.S + " " + y.S + ")")
		}
		if signed {
			return res("(tmod " + x.S + " " + y.S + ")")
		}
		return res("(mod " + x.S + " " + y.S + ")")
	case token.SHL, token.SHR:
		// shift count: Go panics on negative signed counts
		ybits, ysigned := intInfo(y.T)
		_ = ybits
		if ysigned {
			vc.obligeAndAssume(st, "shift", "(>= "+y.S+" 0)", "shift count non-negative", pos)
		}
		var p string
		if n, ok := vc.litVal(y.S); ok {
			if n.Cmp(big.NewInt(int64(bits))) >= 0 {
				if op == token.SHL {
					return res("0")
				}
				if signed {
					return res("(ite (< " + x.S + " 0) (- 1) 0)")
				}
				return res("0")
			}
			p = pow2big(int(n.Int64())).String()
		} else {
			p = "(pow2 " + y.S + ")"
			if op == token.SHR {
				// counts >= 64 handled by pow2 saturating at 2^64: x div 2^64 is 0 or -1
			}
		}
		if op == token.SHR {
			return res("(div " + x.S + " " + p + ")")
		}
		s := "(* " + x.S + " " + p + ")"
		if vc.wrap {
			return res(vc.wrapInt(s, rt))
		}
		// Go shifts discard high bits silently; model exactly by wrapping.
		return res(vc.wrapInt(s, rt))
	case token.AND:
		if n, ok := vc.litVal(y.S); ok {
			return res(vc.andConst(x, n, rt))
		}
		if n, ok := vc.litVal(x.S); ok {
			return res(vc.andConst(y, n, rt))
		}
		if bits == 8 && !signed {
			return res("(band8 " + x.S + " " + y.S + ")")
		}
		vc.note("bitwise & of two variables abstracted in int mode")
		r := res("(bandS " + x.S + " " + y.S + ")")
		vc.assume(vc.inRange(r.S, rt))
		if !signed {
			vc.assume("(and (<= " + r.S + " " + x.S + ") (<= " + r.S + " " + y.S + "))")
		}
		return r
	case token.AND_NOT:
		if n, ok := vc.litVal(y.S); ok {
			// x &^ c == x - (x & c)
			return res("(- " + x.S + " " + vc.andConst(x, n, rt) + ")")
		}
	case token.OR:
		if s, ok := vc.bitConst(x, y, bits, signed, func(v, p string) string { return "(ite (= (bitk " + v + " " + p + ") 0) " + p + " 0)" }); ok {
			return res(s)
		}
		if bits == 8 && !signed {
			return res("(bor8 " + x.S + " " + y.S + ")")
		}
		vc.note("bitwise | abstracted in int mode")
		r := res("(borS " + x.S + " " + y.S + ")")
		vc.assume(vc.inRange(r.S, rt))
		if !signed {
			vc.assume("(and (>= " + r.S + " " + x.S + ") (>= " + r.S + " " + y.S + ") (<= " + r.S + " (+ " + x.S + " " + y.S + ")))")
		}
		return r
	case token.XOR:
		if s, ok := vc.bitConst(x, y, bits, signed, func(v, p string) string { return "(ite (= (bitk " + v + " " + p + ") 0) " + p + " (- " + p + "))" }); ok {
			return res(s)
		}
		if bits == 8 && !signed {
			return res("(bxor8 " + x.S + " " + y.S + ")")
		}
		vc.note("bitwise ^ abstracted in int mode")
		r := res("(bxorS " + x.S + " " + y.S + ")")
		vc.assume(vc.inRange(r.S, rt))
		return r
	}
	unsup("int binop %s in int mode", op)
	return nil
}

// bitConst: x op c for a non-negative literal c (either side) as the other
// operand plus one exact per-bit correction term for every bit set in c.
func (vc *VC) bitConst(x, y *Term, bits int, signed bool, term func(v, p string) string) (string, bool) {
	v := x
	c, ok := vc.litVal(y.S)
	if !ok {
		if c, ok = vc.litVal(x.S); !ok {
			return "", false
		}
		v = y
	}
	lim := bits
	if signed {
		lim = bits - 1
	}
	if c.Sign() < 0 || c.BitLen() > lim {
		return "", false
	}
	n := 0
	s := "(+ " + v.S
	for k := 0; k < c.BitLen(); k++ {
		if c.Bit(k) == 1 {
			s += " " + term(v.S, pow2big(k).String())
			n++
		}
	}
	if n == 0 {
		return v.S, true
	}
	if n > 16 {
		return "", false
	}
	return s + ")", true
}

// andConst: x & c for a constant c (int mode), exact for masks 2^k-1 and
// single contiguous bit ranges.
func (vc *VC) andConst(x *Term, c *big.Int, rt types.Type) string {
	if c.Sign() == 0 {
		return "0"
	}
	if c.Sign() > 0 {
		// c = (2^k - 1) << s  ?
		s := 0
		t := new(big.Int).Set(c)
		for t.Bit(0) == 0 {
			t.Rsh(t, 1)
			s++
		}
		t1 := new(big.Int).Add(t, big.NewInt(1))
		if new(big.Int).And(t, t1).Sign() == 0 { // t is 2^k-1
			k := t1.BitLen() - 1
			if s == 0 {
				return "(mod " + x.S + " " + pow2big(k).String() + ")"
			}
			return "(* (mod (div " + x.S + " " + pow2big(s).String() + ") " + pow2big(k).String() + ") " + pow2big(s).String() + ")"
		}
	}
	vc.note("bitwise & with non-contiguous constant abstracted in int mode")
	return "(band " + x.S + " " + smtInt(c) + ")"
}

func (vc *VC) bvBinop(st *State, op token.Token, x, y *Term, rt types.Type, pos token.Pos, bits int, signed bool) *Term {
	res := func(s string) *Term { return vc.define("t", &Term{s, x.Sort, rt}) }
	switch op {
	case token.ADD:
		return res("(bvadd " + x.S + " " + y.S + ")")
	case token.SUB:
		return res("(bvsub " + x.S + " " + y.S + ")")
	case token.MUL:
		return res("(bvmul " + x.S + " " + y.S + ")")
	case token.QUO, token.REM:
		vc.obligeAndAssume(st, "div0", "(not (= "+y.S+" "+vc.intLit(0, bits)+"))", "division by zero", pos)
		switch {
		case op == token.QUO && signed:
			return res("(bvsdiv " + x.S + " " + y.S + ")")
		case op == token.QUO:
			return res("(bvudiv " + x.S + " " + y.S + ")")
		case signed:
			return res("(bvsrem " + x.S + " " + y.S + ")")
		}
		return res("(bvurem " + x.S + " " + y.S + ")")
	case token.AND:
		return res("(bvand " + x.S + " " + y.S + ")")
	case token.OR:
		return res("(bvor " + x.S + " " + y.S + ")")
	case token.XOR:
		return res("(bvxor " + x.S + " " + y.S + ")")
	case token.AND_NOT:
		return res("(bvand " + x.S + " (bvnot " + y.S + "))")
	case token.SHL, token.SHR:
		ybits, ysigned := intInfo(y.T)
		ys := y.S
		if ysigned {
			vc.obligeAndAssume(st, "shift", "(bvsge "+ys+" "+vc.intLit(0, ybits)+")", "shift count non-negative", pos)
		}
		// bring the count to the operand width, saturating
		switch {
		case ybits < bits:
			ys = fmt.Sprintf("((_ zero_extend %d) %s)", bits-ybits, ys)
		case ybits > bits:
			lim := vc.intLit(int64(bits), ybits)
			ys = fmt.Sprintf("(ite (bvuge %s %s) %s ((_ extract %d 0) %s))", ys, lim, vc.intLit(int64(bits), bits), bits-1, ys)
		}
		switch {
		case op == token.SHL:
			return res("(bvshl " + x.S + " " + ys + ")")
		case signed:
			return res("(bvashr " + x.S + " " + ys + ")")
		}
		return res("(bvlshr " + x.S + " " + ys + ")")
	}
	unsup("bv binop %s", op)
	return nil
}

func (vc *VC) convert(st *State, x *Term, from, to types.Type, pos token.Pos) *Term {
	switch {
	case isIntType(from) && isIntType(to):
		fb, fs := intInfo(from)
		tb, ts := intInfo(to)
		if vc.mode == "bv" {
			switch {
			case tb == fb:
				return &Term{x.S, vc.sortOf(to), to}
			case tb < fb:
				return vc.define("cv", &Term{fmt.Sprintf("((_ extract %d 0) %s)", tb-1, x.S), vc.sortOf(to), to})
			case fs:
				return vc.define("cv", &Term{fmt.Sprintf("((_ sign_extend %d) %s)", tb-fb, x.S), vc.sortOf(to), to})
			}
			return vc.define("cv", &Term{fmt.Sprintf("((_ zero_extend %d) %s)", tb-fb, x.S), vc.sortOf(to), to})
		}
		// int mode: no-op if the source range fits in the target
		flo, fhi := typeRange(from)
		tlo, thi := typeRange(to)
		_ = ts
		if flo.Cmp(tlo) >= 0 && fhi.Cmp(thi) <= 0 {
			return &Term{x.S, "Int", to}
		}
		return vc.define("cv", &Term{vc.wrapInt(x.S, to), "Int", to})
	case isStringType(to) && isByteSlice(from):
		if vc.absStr {
			unsup("string([]byte) with abstract strings")
		}
		hv := vc.arrHV(from.Underlying().(*types.Slice).Elem())
		arr := "(select " + vc.heapGet(st, hv) + " (s-ref " + x.S + "))"
		return vc.define("str", &Term{"(mk-str " + arr + " (s-off " + x.S + ") (s-len " + x.S + "))", SStr, to})
	case isByteSlice(to) && isStringType(from):
		if vc.absStr {
			unsup("[]byte(string) with abstract strings")
		}
		elem := to.Underlying().(*types.Slice).Elem()
		hv := vc.arrHV(elem)
		r := vc.newObject(st, types.NewArray(elem, 0), false)
		vc.heapSet(st, hv, "(store "+vc.heapGet(st, hv)+" "+r.S+" (str-arr "+x.S+"))")
		cp := vc.freshSort("cap", vc.idxSort())
		vc.assume(vc.le("(str-len "+x.S+")", cp.S, true))
		return vc.define("sl", &Term{"(mk-slice " + r.S + " (str-off " + x.S + ") (str-len " + x.S + ") " + cp.S + ")", SSlice, to})
	case isFloatType(to) || isFloatType(from):
		vc.note("float conversion abstracted (result unconstrained)")
		return vc.freshConst("fconv", to)
	case isStringType(to) && isIntType(from):
		// string(rune): UTF-8 encoding, 1..4 bytes; only the single byte case is characterised
		if vc.absStr {
			return vc.freshConst("runestr", to)
		}
		vc.note("string(rune) abstracted (exact only for runes below 128)")
		r := vc.freshConst("runestr", to)
		one := vc.intLit(1, 64)
		vc.assume(and(vc.le(one, "(str-len "+r.S+")", true), vc.le("(str-len "+r.S+")", vc.intLit(4, 64), true)))
		bits, _ := intInfo(from)
		small := and(vc.le(vc.intLit(0, bits), x.S, true), vc.lt(x.S, vc.intLit(128, bits), true))
		b0 := "(select (str-arr " + r.S + ") " + vc.at("(str-off "+r.S+")", vc.intLit(0, 64)) + ")"
		xb := x.S
		if vc.mode == "bv" && bits != 8 {
			xb = fmt.Sprintf("((_ extract 7 0) %s)", x.S)
		}
		vc.assume(implies(small, and("(= (str-len "+r.S+") "+one+")", "(= "+b0+" "+xb+")")))
		return r
	case isStringType(to) && isStringType(from):
		return &Term{x.S, x.Sort, to}
	}
	if _, ok := to.Underlying().(*types.Pointer); ok {
		return &Term{x.S, SRef, to} // unsafe.Pointer conversions: same reference
	}
	if b, ok := to.Underlying().(*types.Basic); ok && b.Kind() == types.UnsafePointer {
		return &Term{x.S, SRef, to}
	}
	unsup("convert %s -> %s", from, to)
	return nil
}

func isByteSlice(t types.Type) bool {
	s, ok := t.Underlying().(*types.Slice)
	if !ok {
		return false
	}
	b, ok := s.Elem().Underlying().(*types.Basic)
	return ok && b.Kind() == types.Uint8
}

// ---------- strings ----------

func (vc *VC) needStrFuns() {
	if vc.declared["streq"] {
		return
	}
	vc.declared["streq"] = true
	idx := vc.idxSort()
	z := vc.intLit(0, 64)
	at := func(s, i string) string { return "(select (str-arr " + s + ") " + vc.at("(str-off "+s+")", i) + ")" }
	vc.emitDecl(fmt.Sprintf("(define-fun streq ((a Str) (b Str)) Bool (and (= (str-len a) (str-len b)) (forall ((i %s)) (=> (and %s %s) (= %s %s)))))",
		idx, vc.le(z, "i", true), vc.lt("i", "(str-len a)", true), at("a", "i"), at("b", "i")))
	// strlt: exists k common prefix length
	vc.emitDecl(fmt.Sprintf("(define-fun strlt ((a Str) (b Str)) Bool (exists ((k %s)) (and %s %s %s (forall ((i %s)) (=> (and %s %s) (= %s %s))) (or (and (= k (str-len a)) %s) (and %s %s %s)))))",
		idx, vc.le(z, "k", true), vc.le("k", "(str-len a)", true), vc.le("k", "(str-len b)", true),
		idx, vc.le(z, "i", true), vc.lt("i", "k", true), at("a", "i"), at("b", "i"),
		vc.lt("k", "(str-len b)", true),
		vc.lt("k", "(str-len a)", true), vc.lt("k", "(str-len b)", true), vc.lt(at("a", "k"), at("b", "k"), false)))
}

func (vc *VC) strBinop(st *State, op token.Token, x, y *Term, rt types.Type) *Term {
	if vc.absStr {
		switch op {
		case token.EQL:
			return &Term{"(= " + x.S + " " + y.S + ")", SBool, rt}
		case token.NEQ:
			return &Term{"(not (= " + x.S + " " + y.S + "))", SBool, rt}
		case token.LSS:
			return &Term{"(< " + x.S + " " + y.S + ")", SBool, rt}
		case token.LEQ:
			return &Term{"(<= " + x.S + " " + y.S + ")", SBool, rt}
		case token.GTR:
			return &Term{"(> " + x.S + " " + y.S + ")", SBool, rt}
		case token.GEQ:
			return &Term{"(>= " + x.S + " " + y.S + ")", SBool, rt}
		}
		unsup("string op %s with abstract strings", op)
	}
	vc.needStrFuns()
	switch op {
	case token.EQL:
		return vc.strEq(x, y, rt)
	case token.NEQ:
		e := vc.strEq(x, y, rt)
		return &Term{not(e.S), SBool, rt}
	case token.LSS:
		return vc.nameB(&Term{"(strlt " + x.S + " " + y.S + ")", SBool, rt})
	case token.GTR:
		return vc.nameB(&Term{"(strlt " + y.S + " " + x.S + ")", SBool, rt})
	case token.LEQ:
		return vc.nameB(&Term{"(not (strlt " + y.S + " " + x.S + "))", SBool, rt})
	case token.GEQ:
		return vc.nameB(&Term{"(not (strlt " + x.S + " " + y.S + "))", SBool, rt})
	case token.ADD:
		return vc.strConcat(x, y, rt)
	}
	unsup("string op %s", op)
	return nil
}

func (vc *VC) nameB(t *Term) *Term {
	n := vc.fresh("b")
	vc.declare(n, SBool)
	vc.assume("(= " + n + " " + t.S + ")")
	return &Term{n, SBool, t.T}
}

func (vc *VC) strEq(x, y *Term, rt types.Type) *Term {
	// comparing with a literal: expand pointwise (no quantifier)
	for _, p := range [][2]*Term{{x, y}, {y, x}} {
		for k, n := range vc.lits {
			if n == p[1].S && strings.HasPrefix(k, "slit:") {
				lit := k[5:]
				parts := []string{"(= (str-len " + p[0].S + ") " + vc.intLit(int64(len(lit)), 64) + ")"}
				for i := 0; i < len(lit); i++ {
					parts = append(parts, "(= (select (str-arr "+p[0].S+") "+vc.at("(str-off "+p[0].S+")", vc.intLit(int64(i), 64))+") "+vc.intLit(int64(lit[i]), 8)+")")
				}
				return vc.nameB(&Term{and(parts...), SBool, rt})
			}
		}
	}
	return vc.nameB(&Term{"(streq " + x.S + " " + y.S + ")", SBool, rt})
}

func (vc *VC) strConcat(x, y *Term, rt types.Type) *Term {
	idx := vc.idxSort()
	r := vc.fresh("cat")
	vc.declare(r, SStr)
	z := vc.intLit(0, 64)
	lx, ly := "(str-len "+x.S+")", "(str-len "+y.S+")"
	vc.assume("(= (str-off " + r + ") " + z + ")")
	vc.assume("(= (str-len " + r + ") " + vc.add(lx, ly) + ")")
	at := func(s, i string) string { return "(select (str-arr " + s + ") " + vc.at("(str-off "+s+")", i) + ")" }
	vc.assume(fmt.Sprintf("(forall ((i %s)) (! (=> (and %s %s) (= (select (str-arr %s) i) (ite %s %s %s))) :pattern ((select (str-arr %s) i))))",
		idx, vc.le(z, "i", true), vc.lt("i", vc.add(lx, ly), true), r, vc.lt("i", lx, true), at(x.S, "i"), at(y.S, vc.sub("i", lx)), r))
	return &Term{r, SStr, rt}
}

func (vc *VC) strIndex(st *State, s *Term, i string, pos token.Pos) *Term {
	if vc.absStr {
		unsup("string indexing with abstract strings")
	}
	vc.boundsCheck(st, i, "(str-len "+s.S+")", pos, "string")
	bt := types.Typ[types.Uint8]
	r := &Term{"(select (str-arr " + s.S + ") " + vc.at("(str-off "+s.S+")", i) + ")", vc.intSort(8), bt}
	return vc.nameLoaded(st, r)
}

// ---------- slices ----------

func (vc *VC) sliceOp(st *State, in *ssa.Slice) Val {
	z := vc.intLit(0, 64)
	get := func(v ssa.Value, def string) string {
		if v == nil {
			return def
		}
		return vc.toIdx(vc.term(st, v))
	}
	xv := vc.val(st, in.X)
	switch u := in.X.Type().Underlying().(type) {
	case *types.Slice:
		x := xv.(*Term)
		lo := get(in.Low, z)
		hi := get(in.High, "(s-len "+x.S+")")
		mx := get(in.Max, "(s-cap "+x.S+")")
		vc.obligeAndAssume(st, "bounds.slice", and(vc.le(z, lo, true), vc.le(lo, hi, true), vc.le(hi, mx, true), vc.le(mx, "(s-cap "+x.S+")", true)),
			"slice bounds in range", in.Pos())
		return vc.define("sl", &Term{"(mk-slice (s-ref " + x.S + ") " + vc.add("(s-off "+x.S+")", lo) + " " + vc.sub(hi, lo) + " " + vc.sub(mx, lo) + ")", SSlice, in.Type()})
	case *types.Basic: // string
		if vc.absStr {
			unsup("string slicing with abstract strings")
		}
		x := xv.(*Term)
		lo := get(in.Low, z)
		hi := get(in.High, "(str-len "+x.S+")")
		vc.obligeAndAssume(st, "bounds.slice", and(vc.le(z, lo, true), vc.le(lo, hi, true), vc.le(hi, "(str-len "+x.S+")", true)),
			"string slice bounds in range", in.Pos())
		return vc.define("str", &Term{"(mk-str (str-arr " + x.S + ") " + vc.add("(str-off "+x.S+")", lo) + " " + vc.sub(hi, lo) + ")", SStr, in.Type()})
	case *types.Pointer:
		a, _ := arrayOf(u.Elem())
		x, ok := xv.(*Term)
		if !ok {
			unsup("slicing an array inside a value")
		}
		vc.nilCheck(st, x, in.Pos(), "array slice")
		vc.arrHV(a.Elem())
		n := vc.intLit(a.Len(), 64)
		lo := get(in.Low, z)
		hi := get(in.High, n)
		mx := get(in.Max, n)
		vc.obligeAndAssume(st, "bounds.slice", and(vc.le(z, lo, true), vc.le(lo, hi, true), vc.le(hi, mx, true), vc.le(mx, n, true)),
			"array slice bounds in range", in.Pos())
		return vc.define("sl", &Term{"(mk-slice " + x.S + " " + lo + " " + vc.sub(hi, lo) + " " + vc.sub(mx, lo) + ")", SSlice, in.Type()})
	}
	unsup("slice of %s", in.X.Type())
	return nil
}

func (vc *VC) makeSlice(st *State, t types.Type, n, c string, pos token.Pos) *Term {
	z := vc.intLit(0, 64)
	vc.obligeAndAssume(st, "bounds.make", and(vc.le(z, n, true), vc.le(n, c, true)), "make: 0 <= len <= cap", pos)
	elem := t.Underlying().(*types.Slice).Elem()
	hv := vc.arrHV(elem)
	r := vc.newObject(st, types.NewArray(elem, 0), false)
	vc.heapSet(st, hv, "(store "+vc.heapGet(st, hv)+" "+r.S+" "+vc.zero(types.NewArray(elem, 0)).S+")")
	return vc.define("mk", &Term{"(mk-slice " + r.S + " " + z + " " + n + " " + c + ")", SSlice, t})
}

// appendOp models append(s, t...) where t is a slice or a string.
func (vc *VC) appendOp(st *State, s, t *Term, rt types.Type, pos token.Pos) *Term {
	elem := rt.Underlying().(*types.Slice).Elem()
	hv := vc.arrHV(elem)
	idx := vc.idxSort()
	var tlen string
	var tat func(i string) string
	if t.Sort == SStr {
		tlen = "(str-len " + t.S + ")"
		tat = func(i string) string { return "(select (str-arr " + t.S + ") " + vc.at("(str-off "+t.S+")", i) + ")" }
	} else {
		tlen = "(s-len " + t.S + ")"
		h0 := vc.heapGet(st, hv)
		tat = func(i string) string {
			return "(select (select " + h0 + " (s-ref " + t.S + ")) " + vc.at("(s-off "+t.S+")", i) + ")"
		}
	}
	tlen = simplifySel(tlen)
	h0 := vc.heapGet(st, hv)
	slen, soff, scap := "(s-len "+s.S+")", "(s-off "+s.S+")", "(s-cap "+s.S+")"
	newlen := vc.define("nlen", &Term{vc.add(slen, tlen), idx, nil}).S
	if vc.mode != "bv" && !vc.wrap {
		vc.assume("true")
	}
	fits := vc.nameBool("fits", vc.le(newlen, scap, true))
	base := "(select " + h0 + " (s-ref " + s.S + "))"
	// new array contents
	var arr string
	if n, ok := vc.litVal(tlen); ok && n.IsInt64() && n.Int64() <= 8 {
		arr = base
		for j := int64(0); j < n.Int64(); j++ {
			arr = "(store " + arr + " " + vc.add(vc.add(soff, slen), vc.intLit(j, 64)) + " " + tat(vc.intLit(j, 64)) + ")"
		}
	} else {
		a := vc.fresh("app")
		vc.declare(a, "(Array "+idx+" "+vc.sortOf(elem)+")")
		start := vc.define("st", &Term{vc.add(soff, slen), idx, nil}).S
		vc.assume(fmt.Sprintf("(forall ((i %s)) (! (= (select %s i) (ite (and %s %s) %s (select %s i))) :pattern ((select %s i))))",
			idx, a, vc.le(start, "i", true), vc.lt("i", vc.add(start, tlen), true), tat(vc.sub("i", start)), base, a))
		arr = a
	}
	nr := vc.newObject(st, types.NewArray(elem, 0), false)
	ncap := vc.freshSort("cap", idx)
	vc.assume(vc.le(newlen, ncap.S, true))
	ref := ite(fits, "(s-ref "+s.S+")", nr.S)
	vc.heapSet(st, hv, "(store "+h0+" "+ref+" "+arr+")")
	return vc.define("app", &Term{"(mk-slice " + ref + " " + soff + " " + newlen + " " + ite(fits, scap, ncap.S) + ")", SSlice, rt})
}

func (vc *VC) copyOp(st *State, d, s *Term, pos token.Pos) *Term {
	elem := d.T.Underlying().(*types.Slice).Elem()
	hv := vc.arrHV(elem)
	idx := vc.idxSort()
	h0 := vc.heapGet(st, hv)
	var slen, sarr, soff string
	if s.Sort == SStr {
		slen, sarr, soff = "(str-len "+s.S+")", "(str-arr "+s.S+")", "(str-off "+s.S+")"
	} else {
		slen, sarr, soff = "(s-len "+s.S+")", "(select "+h0+" (s-ref "+s.S+"))", "(s-off "+s.S+")"
	}
	dlen, doff := "(s-len "+d.S+")", "(s-off "+d.S+")"
	n := vc.define("n", &Term{ite(vc.lt(dlen, slen, true), dlen, slen), idx, types.Typ[types.Int]})
	a := vc.fresh("cpy")
	vc.declare(a, "(Array "+idx+" "+vc.sortOf(elem)+")")
	darr := "(select " + h0 + " (s-ref " + d.S + "))"
	vc.assume(fmt.Sprintf("(forall ((i %s)) (! (= (select %s i) (ite (and %s %s) (select %s %s) (select %s i))) :pattern ((select %s i))))",
		idx, a, vc.le(doff, "i", true), vc.lt("i", vc.add(doff, n.S), true), sarr, vc.add(soff, vc.sub("i", doff)), darr, a))
	vc.heapSet(st, hv, "(store "+h0+" (s-ref "+d.S+") "+a+")")
	return n
}

// ---------- interfaces ----------

func (vc *VC) typeTag(t types.Type) int {
	k := types.TypeString(t, nil)
	// byte/uint8 and rune/int32 are the same types
	k = strings.ReplaceAll(strings.ReplaceAll(k, "byte", "uint8"), "rune", "int32")
	if id, ok := vc.typeTags[k]; ok {
		return id
	}
	id := len(vc.typeTags) + 1
	vc.typeTags[k] = id
	vc.tagTypes = append(vc.tagTypes, t)
	return id
}

func (vc *VC) boxFns(t types.Type) (box, unbox string) {
	s := vc.sortOf(t)
	ts := types.TypeString(t, func(p *types.Package) string { return p.Name() })
	ts = strings.ReplaceAll(strings.ReplaceAll(ts, "byte", "uint8"), "rune", "int32")
	n := sanitize(ts)
	box, unbox = "box_"+n, "unbox_"+n
	if !vc.declared[box] {
		vc.declared[box] = true
		vc.emitDecl("(declare-fun " + box + " (" + s + ") Int)")
		vc.emitDecl("(declare-fun " + unbox + " (Int) " + s + ")")
	}
	return
}

func (vc *VC) makeInterface(st *State, x Val, from, to types.Type) *Term {
	xt, ok := x.(*Term)
	if !ok {
		if _, isF := x.(*FuncVal); isF {
			xt = vc.freshConst("funcval", from)
		} else {
			unsup("MakeInterface of %T", x)
		}
	}
	vc.obligeTypeInv(st, xt, "typeinv.box", "value converted to an interface satisfies its type invariant", token.NoPos)
	tag := vc.typeTag(from)
	box, unbox := vc.boxFns(from)
	b := "(" + box + " " + xt.S + ")"
	vc.assume("(= (" + unbox + " " + b + ") " + xt.S + ")")
	return vc.define("ifc", &Term{fmt.Sprintf("(mk-iface %d %s)", tag, b), SIface, to})
}

func (vc *VC) typeAssert(st *State, x *Term, at types.Type, commaOk bool, pos token.Pos) Val {
	if _, isIface := at.Underlying().(*types.Interface); isIface {
		// interface-to-interface: ok iff dynamic type implements; decide for known tags
		var cases []string
		for i, t := range vc.tagTypes {
			if types.Implements(t, at.Underlying().(*types.Interface)) {
				cases = append(cases, fmt.Sprintf("(= (i-tag %s) %d)", x.S, i+1))
			}
		}
		known := "false"
		if len(cases) > 0 {
			known = or(cases...)
		}
		okc := vc.freshSort("implok", SBool)
		// known implementing tags => ok ; tag 0 (nil) => not ok
		vc.assume(implies(known, okc.S))
		vc.assume(implies("(= (i-tag "+x.S+") 0)", not(okc.S)))
		for i, t := range vc.tagTypes {
			if !types.Implements(t, at.Underlying().(*types.Interface)) {
				vc.assume(implies(fmt.Sprintf("(= (i-tag %s) %d)", x.S, i+1), not(okc.S)))
			}
		}
		val := &Term{x.S, SIface, at}
		if commaOk {
			return Tuple{val, &Term{okc.S, SBool, types.Typ[types.Bool]}}
		}
		vc.obligeAndAssume(st, "typeassert", okc.S, "type assertion to "+at.String()+" succeeds", pos)
		return val
	}
	tag := vc.typeTag(at)
	_, unbox := vc.boxFns(at)
	okc := fmt.Sprintf("(= (i-tag %s) %d)", x.S, tag)
	val := vc.define("ta", &Term{"(" + unbox + " (i-val " + x.S + "))", vc.sortOf(at), at})
	if commaOk {
		// zero value when not ok
		v := vc.define("ta", &Term{ite(okc, val.S, vc.zero(at).S), val.Sort, at})
		vc.assumeUnder(okc, vc.typingFact(val))
		if vc.hasNestedInv(at, 0) {
			tmp := st.clone()
			tmp.reach = and(st.reach, okc)
			vc.assumeTypeInv(tmp, val)
		}
		return Tuple{v, &Term{okc, SBool, types.Typ[types.Bool]}}
	}
	vc.obligeAndAssume(st, "typeassert", okc, "type assertion to "+at.String()+" succeeds", pos)
	vc.assume(vc.typingFact(val))
	vc.assumeAllocated(st, val) // whatever was put into the interface existed already
	vc.assumeTypeInv(st, val)
	return val
}

// ---------- maps (scalar keys and values only) ----------

func (vc *VC) mapHV(t types.Type) (hv string, ks, vs string, m *types.Map) {
	m = t.Underlying().(*types.Map)
	ks, vs = vc.sortOf(m.Key()), vc.sortOf(m.Elem())
	opt := "Opt_" + sanitize(vs)
	if !vc.declared[opt] {
		vc.declared[opt] = true
		vc.emitDecl(fmt.Sprintf("(declare-datatypes ((%s 0)) (((none_%s) (some_%s (val_%s %s)))))", opt, opt, opt, opt, vs))
	}
	hv = "HM_" + sanitize(ks) + "_" + sanitize(vs)
	vc.regHeap(hv, "(Array "+ks+" "+opt+")", t)
	return
}

func (vc *VC) mapLookup(st *State, m *Term, mt types.Type, k *Term, commaOk bool) Val {
	hv, _, vs, mm := vc.mapHV(mt)
	opt := "Opt_" + sanitize(vs)
	e := vc.define("me", &Term{"(select (select " + vc.heapGet(st, hv) + " " + m.S + ") " + k.S + ")", opt, nil})
	has := "((_ is some_" + opt + ") " + e.S + ")"
	v := vc.define("mv", &Term{ite(has, "(val_"+opt+" "+e.S+")", vc.zero(mm.Elem()).S), vs, mm.Elem()})
	vc.assumeUnder(has, vc.typingFact(&Term{"(val_" + opt + " " + e.S + ")", vs, mm.Elem()}))
	// a nil map reads as empty
	vc.assume(implies("(= "+m.S+" nil)", not(has)))
	if commaOk {
		return Tuple{v, &Term{has, SBool, types.Typ[types.Bool]}}
	}
	return v
}

func (vc *VC) mapUpdate(st *State, m *Term, mt types.Type, k, v *Term) {
	hv, _, vs, _ := vc.mapHV(mt)
	opt := "Opt_" + sanitize(vs)
	vc.obligeAndAssume(st, "nilmap", "(not (= "+m.S+" nil))", "assignment to entry in nil map", token.NoPos)
	h := vc.heapGet(st, hv)
	vc.heapSet(st, hv, "(store "+h+" "+m.S+" (store (select "+h+" "+m.S+") "+k.S+" (some_"+opt+" "+v.S+")))")
}

func (vc *VC) mapDelete(st *State, m *Term, mt types.Type, k *Term) {
	hv, _, vs, _ := vc.mapHV(mt)
	opt := "Opt_" + sanitize(vs)
	h := vc.heapGet(st, hv)
	vc.heapSet(st, hv, "(store "+h+" "+m.S+" (store (select "+h+" "+m.S+") "+k.S+" none_"+opt+"))")
}

func (vc *VC) makeMap(st *State, t types.Type) *Term {
	hv, ks, vs, _ := vc.mapHV(t)
	opt := "Opt_" + sanitize(vs)
	r := vc.newObject(st, types.NewArray(types.Typ[types.Int], 0), false)
	vc.heapSet(st, hv, "(store "+vc.heapGet(st, hv)+" "+r.S+" ((as const (Array "+ks+" "+opt+")) none_"+opt+"))")
	return &Term{r.S, SRef, t}
}

// at(off, i): element position off+i, wrapped in an uninterpreted symbol so
// that quantifier patterns over element reads contain no arithmetic.
func (vc *VC) at(off, i string) string {
	if vc.mode == "bv" {
		return "(bvadd " + off + " " + i + ")"
	}
	return "(at " + off + " " + i + ")"
}
