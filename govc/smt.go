package main

import (
	"fmt"
	"go/constant"
	"go/types"
	"math/big"
	"sort"
	"strings"
)

// Term is an SMT term together with the Go type it models (nil for
// spec-level mathematical values).
type Term struct {
	S    string
	Sort string
	T    types.Type
}

func (t *Term) String() string { return t.S }

const (
	SBool  = "Bool"
	SRef   = "Ref"
	SSlice = "Slice"
	SStr   = "Str"
	SIface = "Iface"
)

type unsupported struct{ msg string }

func unsup(format string, a ...any) { panic(unsupported{fmt.Sprintf(format, a...)}) }

// ---------- sorts ----------

func (vc *VC) intSort(bits int) string {
	if vc.mode == "bv" {
		return fmt.Sprintf("(_ BitVec %d)", bits)
	}
	return "Int"
}

// IdxSort is the sort of Go's int in the current mode (array indices, lengths).
func (vc *VC) idxSort() string { return vc.intSort(64) }

func basicBits(b *types.Basic) (bits int, signed bool, ok bool) {
	switch b.Kind() {
	case types.Int, types.Int64, types.UntypedInt, types.UntypedRune:
		return 64, true, true
	case types.Int8:
		return 8, true, true
	case types.Int16:
		return 16, true, true
	case types.Int32:
		return 32, true, true
	case types.Uint, types.Uint64, types.Uintptr:
		return 64, false, true
	case types.Uint8:
		return 8, false, true
	case types.Uint16:
		return 16, false, true
	case types.Uint32:
		return 32, false, true
	}
	return 0, false, false
}

func isIntType(t types.Type) bool {
	b, ok := t.Underlying().(*types.Basic)
	if !ok {
		return false
	}
	_, _, ok = basicBits(b)
	return ok
}

func isStringType(t types.Type) bool {
	b, ok := t.Underlying().(*types.Basic)
	return ok && (b.Kind() == types.String || b.Kind() == types.UntypedString)
}

func isBoolType(t types.Type) bool {
	b, ok := t.Underlying().(*types.Basic)
	return ok && (b.Kind() == types.Bool || b.Kind() == types.UntypedBool)
}

func isFloatType(t types.Type) bool {
	b, ok := t.Underlying().(*types.Basic)
	return ok && (b.Info()&types.IsFloat != 0 || b.Info()&types.IsComplex != 0)
}

func intInfo(t types.Type) (bits int, signed bool) {
	b := t.Underlying().(*types.Basic)
	bits, signed, _ = basicBits(b)
	return
}

func sanitize(s string) string {
	var b strings.Builder
	for _, c := range s {
		switch {
		case c >= 'a' && c <= 'z', c >= 'A' && c <= 'Z', c >= '0' && c <= '9', c == '_':
			b.WriteRune(c)
		default:
			b.WriteByte('_')
		}
	}
	return b.String()
}

// typeName gives a stable short name for named types (pkgname_Type).
func typeName(t types.Type) string {
	switch t := t.(type) {
	case *types.Named:
		n := t.Obj().Name()
		if t.Obj().Pkg() != nil {
			pn := t.Obj().Pkg().Name()
			if strings.Contains(t.Obj().Pkg().Path(), "internal/") {
				pn = "internal_" + pn // e.g. internal/sync.Mutex vs sync.Mutex
			}
			n = pn + "_" + n
		}
		if ta := t.TypeArgs(); ta != nil && ta.Len() > 0 {
			for i := 0; i < ta.Len(); i++ {
				n += "_" + sanitize(types.TypeString(ta.At(i), func(p *types.Package) string { return p.Name() }))
			}
		}
		return sanitize(n)
	case *types.Alias:
		return typeName(types.Unalias(t))
	}
	return sanitize(types.TypeString(t, func(p *types.Package) string { return p.Name() }))
}

func (vc *VC) sortOf(t types.Type) string {
	t = types.Unalias(t)
	switch u := t.Underlying().(type) {
	case *types.Basic:
		if bits, _, ok := basicBits(u); ok {
			return vc.intSort(bits)
		}
		switch {
		case u.Info()&types.IsBoolean != 0:
			return SBool
		case u.Info()&types.IsString != 0:
			if vc.absStr {
				return "Int"
			}
			return SStr
		case u.Info()&types.IsFloat != 0:
			return "Float"
		case u.Kind() == types.UnsafePointer:
			return SRef
		case u.Kind() == types.UntypedNil:
			return SRef
		}
		unsup("basic type %s", t)
	case *types.Pointer:
		return SRef
	case *types.Slice:
		return SSlice
	case *types.Array:
		return "(Array " + vc.idxSort() + " " + vc.sortOf(u.Elem()) + ")"
	case *types.Struct:
		return vc.structSort(t, u)
	case *types.Interface:
		return SIface
	case *types.Map, *types.Chan:
		return SRef
	case *types.Signature:
		return "Func"
	case *types.Tuple:
		unsup("tuple sort")
	}
	unsup("sort of %s", t)
	return ""
}

func (vc *VC) structSort(t types.Type, st *types.Struct) string {
	name := "S_" + typeName(t)
	if _, isNamed := types.Unalias(t).(*types.Named); !isNamed {
		name = fmt.Sprintf("S_anon%d", vc.anonStruct(st))
	}
	if vc.declared[name] {
		return name
	}
	vc.declared[name] = true
	// field sorts first (may declare nested datatypes)
	var fs []string
	for i := 0; i < st.NumFields(); i++ {
		fs = append(fs, fmt.Sprintf("(%s_f%d %s)", name, i, vc.sortOf(st.Field(i).Type())))
	}
	if len(fs) == 0 {
		vc.emitDecl(fmt.Sprintf("(declare-datatypes ((%s 0)) (((mk-%s))))", name, name))
	} else {
		vc.emitDecl(fmt.Sprintf("(declare-datatypes ((%s 0)) (((mk-%s %s))))", name, name, strings.Join(fs, " ")))
	}
	return name
}

func (vc *VC) anonStruct(st *types.Struct) int {
	s := st.String()
	if id, ok := vc.anon[s]; ok {
		return id
	}
	id := len(vc.anon)
	vc.anon[s] = id
	return id
}

// ---------- prelude ----------

func (vc *VC) prelude() string {
	var b strings.Builder
	b.WriteString("(set-option :produce-models true)\n(set-logic ALL)\n")
	b.WriteString("(declare-datatypes ((Ref 0)) (((mk-ref (rid Int) (rpath Int)))))\n")
	b.WriteString("(define-fun nil () Ref (mk-ref 0 0))\n")
	idx := vc.idxSort()
	b.WriteString(fmt.Sprintf("(declare-datatypes ((Slice 0)) (((mk-slice (s-ref Ref) (s-off %s) (s-len %s) (s-cap %s)))))\n", idx, idx, idx))
	byteS := vc.intSort(8)
	b.WriteString(fmt.Sprintf("(declare-datatypes ((Str 0)) (((mk-str (str-arr (Array %s %s)) (str-off %s) (str-len %s)))))\n", idx, byteS, idx, idx))
	b.WriteString("(declare-datatypes ((Iface 0)) (((mk-iface (i-tag Int) (i-val Int)))))\n")
	b.WriteString("(declare-sort Float 0)\n(declare-sort Func 0)\n")
	if vc.mode != "bv" {
		// truncated division / remainder (Go semantics), b != 0
		b.WriteString("(define-fun tdiv ((a Int) (b Int)) Int (ite (>= a 0) (ite (> b 0) (div a b) (- (div a (- b)))) (ite (> b 0) (- (div (- a) b)) (div (- a) (- b)))))\n")
		b.WriteString("(define-fun tmod ((a Int) (b Int)) Int (- a (* b (tdiv a b))))\n")
		// pow2 for shifts by variables, 0..64
		b.WriteString("(define-fun pow2 ((s Int)) Int ")
		for i := 0; i < 64; i++ {
			b.WriteString(fmt.Sprintf("(ite (= s %d) %s ", i, new(big.Int).Lsh(big.NewInt(1), uint(i)).String()))
		}
		b.WriteString(new(big.Int).Lsh(big.NewInt(1), 64).String())
		b.WriteString(strings.Repeat(")", 64))
		b.WriteString(")\n")
		b.WriteString("(declare-fun at (Int Int) Int)\n(assert (forall ((o Int) (i Int)) (! (= (at o i) (+ o i)) :pattern ((at o i)))))\n")
		b.WriteString("(declare-fun band (Int Int) Int)\n(declare-fun bor (Int Int) Int)\n(declare-fun bxor (Int Int) Int)\n")
		// exact bit operations on 8 bit unsigned operands (bit decomposition)
		b.WriteString("(define-fun bitk ((x Int) (p Int)) Int (mod (div x p) 2))\n")
		for _, op := range []struct{ name, f string }{
			{"bxor8", "(ite (= (bitk x %d) (bitk y %d)) 0 %d)"},
			{"band8", "(ite (and (= (bitk x %d) 1) (= (bitk y %d) 1)) %d 0)"},
			{"bor8", "(ite (or (= (bitk x %d) 1) (= (bitk y %d) 1)) %d 0)"}} {
			b.WriteString("(define-fun " + op.name + " ((x Int) (y Int)) Int (+")
			for k := 0; k < 8; k++ {
				p := 1 << k
				b.WriteString(" " + fmt.Sprintf(op.f, p, p, p))
			}
			b.WriteString("))\n")
		}
		// operands within the int16 range: exact via 16 bit two's complement;
		// anything else stays uninterpreted (sound over-approximation)
		for _, op := range []struct{ name, un, f string }{
			{"bxorS", "bxor", "(ite (= (bitk x %d) (bitk y %d)) 0 %d)"},
			{"bandS", "band", "(ite (and (= (bitk x %d) 1) (= (bitk y %d) 1)) %d 0)"},
			{"borS", "bor", "(ite (or (= (bitk x %d) 1) (= (bitk y %d) 1)) %d 0)"}} {
			b.WriteString("(define-fun " + op.name + "16 ((x Int) (y Int)) Int (+")
			for k := 0; k < 16; k++ {
				p := 1 << k
				b.WriteString(" " + fmt.Sprintf(op.f, p, p, p))
			}
			b.WriteString("))\n")
			fallback := "(" + op.un + " x y)"
			if op.name == "borS" || op.name == "bxorS" {
				// operands with disjoint bit ranges (x<<k | y with y < 2^k): | and ^ are +
				for _, k := range []int{56, 48, 40, 32, 24, 16, 8} {
					p := new(big.Int).Lsh(big.NewInt(1), uint(k)).String()
					fallback = "(ite (and (>= x 0) (>= y 0) (or (and (= (mod x " + p + ") 0) (< y " + p + ")) (and (= (mod y " + p + ") 0) (< x " + p + ")))) (+ x y) " + fallback + ")"
				}
			}
			b.WriteString("(define-fun " + op.name + " ((x Int) (y Int)) Int (ite (and (<= (- 32768) x) (<= x 32767) (<= (- 32768) y) (<= y 32767)) " +
				"(let ((u (" + op.name + "16 (ite (< x 0) (+ x 65536) x) (ite (< y 0) (+ y 65536) y)))) (ite (>= u 32768) (- u 65536) u)) " + fallback + "))\n")
		}
	}
	return b.String()
}

// ---------- fresh names, commands ----------

func (vc *VC) fresh(hint string) string {
	vc.nfresh++
	return fmt.Sprintf("%s!%d", sanitize(hint), vc.nfresh)
}

func (vc *VC) emitDecl(s string) { vc.cmds = append(vc.cmds, s) }

func (vc *VC) declare(name, sort string) {
	vc.cmds = append(vc.cmds, fmt.Sprintf("(declare-fun %s () %s)", name, sort))
	vc.constSort[name] = sort
}

// assume adds an unconditional fact (only for definitions of fresh symbols
// and typing facts), or a guarded fact.
func (vc *VC) assume(fact string) {
	if fact == "true" {
		return
	}
	vc.cmds = append(vc.cmds, "(assert "+fact+")")
}

func (vc *VC) assumeUnder(guard, fact string) {
	if fact == "true" {
		return
	}
	if guard == "true" {
		vc.assume(fact)
		return
	}
	vc.cmds = append(vc.cmds, "(assert (=> "+guard+" "+fact+"))")
}

// freshConst declares a new constant of the sort for Go type t and adds typing facts.
func (vc *VC) freshConst(hint string, t types.Type) *Term {
	s := vc.sortOf(t)
	n := vc.fresh(hint)
	vc.declare(n, s)
	tm := &Term{n, s, t}
	vc.assumeTyping(tm)
	return tm
}

func (vc *VC) freshSort(hint, sort string) *Term {
	n := vc.fresh(hint)
	vc.declare(n, sort)
	return &Term{n, sort, nil}
}

// define introduces a named constant equal to the given term (keeps terms small).
func (vc *VC) define(hint string, t *Term) *Term {
	if len(t.S) < 40 || strings.Contains(t.S, "?") {
		// short, or mentions a bound variable of a quantifier (named x?N): keep in place
		return t
	}
	n := vc.fresh(hint)
	vc.declare(n, t.Sort)
	vc.assume("(= " + n + " " + t.S + ")")
	return &Term{n, t.Sort, t.T}
}

// ---------- typing facts ----------

func typeRange(t types.Type) (lo, hi *big.Int) {
	bits, signed := intInfo(t)
	if signed {
		hi = new(big.Int).Lsh(big.NewInt(1), uint(bits-1))
		lo = new(big.Int).Neg(hi)
		hi.Sub(hi, big.NewInt(1))
	} else {
		lo = big.NewInt(0)
		hi = new(big.Int).Lsh(big.NewInt(1), uint(bits))
		hi.Sub(hi, big.NewInt(1))
	}
	return
}

func smtInt(n *big.Int) string {
	if n.Sign() < 0 {
		return "(- " + new(big.Int).Neg(n).String() + ")"
	}
	return n.String()
}

// typingFact returns the typing invariant for a term of a Go type (or "true").
func (vc *VC) typingFact(tm *Term) string {
	if tm.T == nil {
		return "true"
	}
	t := types.Unalias(tm.T)
	switch u := t.Underlying().(type) {
	case *types.Basic:
		if _, _, ok := basicBits(u); ok && vc.mode != "bv" {
			lo, hi := typeRange(t)
			return fmt.Sprintf("(and (<= %s %s) (<= %s %s))", smtInt(lo), tm.S, tm.S, smtInt(hi))
		}
		if u.Info()&types.IsString != 0 {
			if vc.absStr {
				return "(>= " + tm.S + " 0)"
			}
			if vc.mode == "bv" {
				return and(vc.le(vc.intLit(0, 64), "(str-len "+tm.S+")", true), vc.le("(str-len "+tm.S+")", vc.bigLit(big.NewInt(281474976710656), 64), true))
			}
			// Go's runtime cannot allocate objects larger than 2^48 bytes (maxAlloc, 64-bit platforms)
			return "(and (<= 0 (str-len " + tm.S + ")) (<= (str-len " + tm.S + ") 281474976710656) (<= 0 (str-off " + tm.S + ")))"
		}
	case *types.Slice:
		z := vc.intLit(0, 64)
		ub := "true"
		if vc.mode != "bv" {
			// an array of cap elements fits in the address space
			sz := types.SizesFor("gc", "amd64").Sizeof(u.Elem())
			if sz < 1 {
				sz = 1
			}
			ub = "(<= (s-cap " + tm.S + ") " + new(big.Int).Div(big.NewInt(281474976710656), big.NewInt(sz)).String() + ")"
		} else {
			sz := types.SizesFor("gc", "amd64").Sizeof(u.Elem())
			if sz < 1 {
				sz = 1
			}
			ub = vc.le("(s-cap "+tm.S+")", vc.bigLit(new(big.Int).Div(big.NewInt(281474976710656), big.NewInt(sz)), 64), true)
		}
		return fmt.Sprintf("(and %s %s %s %s (>= (rid (s-ref %s)) 0))", vc.le(z, "(s-off "+tm.S+")", true), vc.le(z, "(s-len "+tm.S+")", true),
			vc.le("(s-len "+tm.S+")", "(s-cap "+tm.S+")", true), ub, tm.S)
	case *types.Interface:
		// the nil interface has no payload: one representation of nil
		return "(and (>= (i-tag " + tm.S + ") 0) (=> (= (i-tag " + tm.S + ") 0) (= (i-val " + tm.S + ") 0)))"
	case *types.Pointer, *types.Map, *types.Chan:
		// object ids are positive (negative: package variables); id 0 is nil only
		return "(and (>= (rpath " + tm.S + ") 0) (or (not (= (rid " + tm.S + ") 0)) (= " + tm.S + " nil)))"
	case *types.Struct:
		var fs []string
		sn := vc.sortOf(t)
		for i := 0; i < u.NumFields(); i++ {
			f := vc.typingFact(&Term{fmt.Sprintf("(%s_f%d %s)", sn, i, tm.S), vc.sortOf(u.Field(i).Type()), u.Field(i).Type()})
			if f != "true" {
				fs = append(fs, f)
			}
		}
		if len(fs) > 0 {
			return "(and " + strings.Join(fs, " ") + ")"
		}
	}
	return "true"
}

func (vc *VC) assumeTyping(tm *Term) { vc.assume(vc.typingFact(tm)) }

// ---------- integer operations (mode dependent) ----------

func (vc *VC) intLit(n int64, bits int) string { return vc.bigLit(big.NewInt(n), bits) }

func (vc *VC) bigLit(n *big.Int, bits int) string {
	if vc.mode == "bv" {
		m := new(big.Int).Set(n)
		if m.Sign() < 0 {
			m.Add(m, new(big.Int).Lsh(big.NewInt(1), uint(bits)))
		}
		m.And(m, new(big.Int).Sub(new(big.Int).Lsh(big.NewInt(1), uint(bits)), big.NewInt(1)))
		return fmt.Sprintf("(_ bv%s %d)", m.String(), bits)
	}
	return smtInt(n)
}

func (vc *VC) le(a, b string, signed bool) string {
	if vc.mode == "bv" {
		if signed {
			return "(bvsle " + a + " " + b + ")"
		}
		return "(bvule " + a + " " + b + ")"
	}
	return "(<= " + a + " " + b + ")"
}

func (vc *VC) lt(a, b string, signed bool) string {
	if vc.mode == "bv" {
		if signed {
			return "(bvslt " + a + " " + b + ")"
		}
		return "(bvult " + a + " " + b + ")"
	}
	return "(< " + a + " " + b + ")"
}

func (vc *VC) add(a, b string) string {
	if vc.mode == "bv" {
		return "(bvadd " + a + " " + b + ")"
	}
	if b == "0" {
		return a
	}
	if a == "0" {
		return b
	}
	return "(+ " + a + " " + b + ")"
}

func (vc *VC) sub(a, b string) string {
	if vc.mode == "bv" {
		return "(bvsub " + a + " " + b + ")"
	}
	if b == "0" {
		return a
	}
	return "(- " + a + " " + b + ")"
}

func (vc *VC) mul(a, b string) string {
	if vc.mode == "bv" {
		return "(bvmul " + a + " " + b + ")"
	}
	return "(* " + a + " " + b + ")"
}

func pow2big(k int) *big.Int { return new(big.Int).Lsh(big.NewInt(1), uint(k)) }

// wrapInt (int mode): reduce a mathematical integer to the range of Go type t.
func (vc *VC) wrapInt(x string, t types.Type) string {
	bits, signed := intInfo(t)
	m := pow2big(bits).String()
	if !signed {
		return "(mod " + x + " " + m + ")"
	}
	h := pow2big(bits - 1).String()
	return "(- (mod (+ " + x + " " + h + ") " + m + ") " + h + ")"
}

func (vc *VC) inRange(x string, t types.Type) string {
	lo, hi := typeRange(t)
	return fmt.Sprintf("(and (<= %s %s) (<= %s %s))", smtInt(lo), x, x, smtInt(hi))
}

// constTerm converts a Go constant of type t.
func (vc *VC) constTerm(v constant.Value, t types.Type) *Term {
	t0 := t
	u := types.Unalias(t).Underlying()
	if v == nil { // nil or zero
		return vc.zero(t0)
	}
	switch u := u.(type) {
	case *types.Basic:
		if bits, _, ok := basicBits(u); ok {
			n, ok := constant.Val(constant.ToInt(v)).(*big.Int)
			if !ok {
				i64, exact := constant.Int64Val(constant.ToInt(v))
				if !exact {
					u64, _ := constant.Uint64Val(constant.ToInt(v))
					n = new(big.Int).SetUint64(u64)
				} else {
					n = big.NewInt(i64)
				}
			}
			return &Term{vc.bigLit(n, bits), vc.intSort(bits), t0}
		}
		switch {
		case u.Info()&types.IsBoolean != 0:
			if constant.BoolVal(v) {
				return &Term{"true", SBool, t0}
			}
			return &Term{"false", SBool, t0}
		case u.Info()&types.IsString != 0:
			return vc.strLit(constant.StringVal(v), t0)
		case u.Info()&types.IsFloat != 0:
			return vc.floatLit(v.ExactString(), t0)
		}
	}
	unsup("constant %v of type %s", v, t)
	return nil
}

func (vc *VC) floatLit(s string, t types.Type) *Term {
	key := "flit:" + s
	if n, ok := vc.lits[key]; ok {
		return &Term{n, "Float", t}
	}
	n := vc.fresh("flit")
	vc.declare(n, "Float")
	vc.lits[key] = n
	return &Term{n, "Float", t}
}

func (vc *VC) strLit(s string, t types.Type) *Term {
	if vc.absStr {
		if s == "" {
			return &Term{"0", "Int", t}
		}
		key := "slit:" + s
		if n, ok := vc.lits[key]; ok {
			return &Term{n, "Int", t}
		}
		n := vc.fresh("strlit")
		vc.declare(n, "Int")
		vc.assume("(> " + n + " 0)")
		// order relative to other literals
		var keys []string
		for k := range vc.lits {
			if strings.HasPrefix(k, "slit:") {
				keys = append(keys, k)
			}
		}
		sort.Strings(keys)
		for _, k := range keys {
			o := k[5:]
			if o < s {
				vc.assume("(< " + vc.lits[k] + " " + n + ")")
			} else {
				vc.assume("(< " + n + " " + vc.lits[k] + ")")
			}
		}
		vc.lits[key] = n
		return &Term{n, "Int", t}
	}
	key := "slit:" + s
	if n, ok := vc.lits[key]; ok {
		return &Term{n, SStr, t}
	}
	n := vc.fresh("strlit")
	vc.declare(n, SStr)
	vc.assume(fmt.Sprintf("(= (str-off %s) %s)", n, vc.intLit(0, 64)))
	vc.assume(fmt.Sprintf("(= (str-len %s) %s)", n, vc.intLit(int64(len(s)), 64)))
	for i := 0; i < len(s); i++ {
		vc.assume(fmt.Sprintf("(= (select (str-arr %s) %s) %s)", n, vc.intLit(int64(i), 64), vc.intLit(int64(s[i]), 8)))
	}
	vc.lits[key] = n
	return &Term{n, SStr, t}
}

// zero value of a Go type
func (vc *VC) zero(t types.Type) *Term {
	s := vc.sortOf(t)
	switch u := types.Unalias(t).Underlying().(type) {
	case *types.Basic:
		if bits, _, ok := basicBits(u); ok {
			return &Term{vc.intLit(0, bits), s, t}
		}
		switch {
		case u.Info()&types.IsBoolean != 0:
			return &Term{"false", s, t}
		case u.Info()&types.IsString != 0:
			return vc.strLit("", t)
		case u.Info()&types.IsFloat != 0:
			return vc.floatLit("0", t)
		}
		return &Term{"nil", SRef, t}
	case *types.Pointer, *types.Map, *types.Chan:
		return &Term{"nil", SRef, t}
	case *types.Slice:
		z := vc.intLit(0, 64)
		return &Term{fmt.Sprintf("(mk-slice nil %s %s %s)", z, z, z), s, t}
	case *types.Array:
		ez := vc.zero(u.Elem()).S
		if strings.Contains(ez, "nil") || strings.Contains(ez, "!") {
			// cvc5 accepts only literal values in (as const ...): name the array instead
			key := "zarr:" + s + ":" + ez
			if n, ok := vc.lits[key]; ok {
				return &Term{n, s, t}
			}
			n := vc.fresh("zarr")
			vc.declare(n, s)
			vc.assume(fmt.Sprintf("(forall ((i %s)) (! (= (select %s i) %s) :pattern ((select %s i))))", vc.idxSort(), n, ez, n))
			vc.lits[key] = n
			return &Term{n, s, t}
		}
		return &Term{fmt.Sprintf("((as const %s) %s)", s, ez), s, t}
	case *types.Struct:
		if u.NumFields() == 0 {
			return &Term{"mk-" + s, s, t}
		}
		var fs []string
		for i := 0; i < u.NumFields(); i++ {
			fs = append(fs, vc.zero(u.Field(i).Type()).S)
		}
		return &Term{"(mk-" + s + " " + strings.Join(fs, " ") + ")", s, t}
	case *types.Interface:
		return &Term{"(mk-iface 0 0)", s, t}
	case *types.Signature:
		n := "nilfunc"
		if !vc.declared[n] {
			vc.declared[n] = true
			vc.declare(n, "Func")
		}
		return &Term{n, "Func", t}
	}
	unsup("zero of %s", t)
	return nil
}

func ite(c, a, b string) string {
	if a == b {
		return a
	}
	if c == "true" {
		return a
	}
	if c == "false" {
		return b
	}
	return "(ite " + c + " " + a + " " + b + ")"
}

func and(xs ...string) string {
	var out []string
	for _, x := range xs {
		if x == "true" {
			continue
		}
		if x == "false" {
			return "false"
		}
		out = append(out, x)
	}
	switch len(out) {
	case 0:
		return "true"
	case 1:
		return out[0]
	}
	return "(and " + strings.Join(out, " ") + ")"
}

func or(xs ...string) string {
	var out []string
	for _, x := range xs {
		if x == "false" {
			continue
		}
		if x == "true" {
			return "true"
		}
		out = append(out, x)
	}
	switch len(out) {
	case 0:
		return "false"
	case 1:
		return out[0]
	}
	return "(or " + strings.Join(out, " ") + ")"
}

func not(x string) string {
	switch x {
	case "true":
		return "false"
	case "false":
		return "true"
	}
	if strings.HasPrefix(x, "(not ") && balanced(x[5:len(x)-1]) {
		return x[5 : len(x)-1]
	}
	return "(not " + x + ")"
}

func balanced(s string) bool {
	d := 0
	for _, c := range s {
		switch c {
		case '(':
			d++
		case ')':
			d--
			if d < 0 {
				return false
			}
		}
	}
	return d == 0
}

func implies(a, b string) string {
	if a == "true" {
		return b
	}
	if b == "true" {
		return "true"
	}
	return "(=> " + a + " " + b + ")"
}
