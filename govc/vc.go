package main

import (
	"fmt"
	"go/token"
	"go/types"
	"math/big"
	"regexp"
	"sort"
	"strings"

	"golang.org/x/tools/go/ssa"
)

// Val is a symbolic value: *Term, *Loc (interior pointer), Tuple, *FuncVal.
type Val interface{}

type Tuple []Val

// FuncSet: one of several function values (paths merged); a call through it
// checks every alternative and then havocs.
type FuncSet struct{ Alts []*FuncVal }

type FuncVal struct {
	Fn       *ssa.Function
	Bindings []Val
}

type pathStep struct {
	isIdx bool
	idx   string // index term (idxSort)
	fld   int
	sort  string     // sort of the container value at this step
	ct    types.Type // container type
}

// Loc is a pointer into the middle of a heap value.
type Loc struct {
	HV   string // heap variable
	Ref  string // object reference term
	Path []pathStep
	T    types.Type // pointee type
	RT   types.Type // type of the value stored at HV[Ref]
}

type Obligation struct {
	Name   string
	Kind   string
	Desc   string
	Top    bool
	Fn     string
	Prefix int
	Reach  string
	Goal   string
	Pos    string
	Cover  bool // vacuity cover: expected SAT
	// results
	Status string
	Solver string
	Secs   float64
	// Retried: decided only in the second-chance phase (longer limit)
	Retried bool
	// LongTried: a `slow` baseline obligation that was given the long last
	// attempt (run alone, 900 s); still undecided after that counts as failed
	LongTried bool
	// Confirmed: other solvers that also answered unsat (thorough tier cross-check)
	Confirmed []string
	Model  string
	Query  string
}

type State struct {
	reach string
	env   map[ssa.Value]Val
	heap  map[string]string
	epoch int
	alts  []epochAlt
	alloc string
	names map[string]Val // source-level local names -> value
	dead  bool
	// panic in flight (only in functions whose deferred calls use recover):
	// panicking is an SMT Bool term ("" = false), pval the panic value (Iface
	// term), recov "the function returned normally after recovering a panic"
	panicking, pval, recov string
}

func (st *State) clone() *State {
	n := &State{reach: st.reach, epoch: st.epoch, alts: st.alts, alloc: st.alloc, dead: st.dead,
		panicking: st.panicking, pval: st.pval, recov: st.recov,
		env: make(map[ssa.Value]Val, len(st.env)+8), heap: make(map[string]string, len(st.heap)+4),
		names: make(map[string]Val, len(st.names)+4)}
	for k, v := range st.env {
		n.env[k] = v
	}
	for k, v := range st.heap {
		n.heap[k] = v
	}
	for k, v := range st.names {
		n.names[k] = v
	}
	return n
}

type VC struct {
	eng      *Engine
	root     *ssa.Function
	contract *Contract
	fnName   string
	mode     string
	absStr   bool
	wrap     bool
	noNil    bool
	noSafety bool

	cmds      []string
	constSort map[string]string
	declared  map[string]bool
	anon      map[string]int
	lits      map[string]string
	nfresh    int
	nepoch    int

	heapSort map[string]string // heap var -> value sort
	heapType map[string]types.Type
	heapVars []string

	obls     []*Obligation
	oblCount map[string]int
	suppress int
	interfCover bool

	trusted   map[string]bool
	havoced   map[string]bool
	inlined   map[string]bool
	notes     []string
	typeTags  map[string]int
	tagTypes  []types.Type
	globalIds map[*ssa.Global]int
	oldState  *State
	depth     int
	written   map[string]bool // heap vars written (for frame)
	specDepth int
	ghost     map[string]*Term // ghost witness values
	usedContracts map[string]bool
	constOf   map[string]string
	iteLit    map[string][3]string // phi name -> (condition, literal, literal)
	// panic handling (functions with deferred calls that use recover)
	panicSink *[]*panicExit // where panics raised in the body are collected; nil: not modelled
	inDefers  bool          // deferred calls are being executed (recover() is live)
	panicOut  []*State      // states in which a panic leaves the function
	panicOwner *frame       // the frame whose deferred calls see the panics collected in panicSink
	privCells [][2]string // (heap variable, reference) of function-private local variable cells
	ghostOut  Tuple
	ghostRange map[string][2]string
	paramConsts []string
}

func newVC(eng *Engine, fn *ssa.Function, c *Contract) *VC {
	vc := &VC{eng: eng, root: fn, contract: c, constSort: map[string]string{}, declared: map[string]bool{},
		anon: map[string]int{}, lits: map[string]string{}, heapSort: map[string]string{}, heapType: map[string]types.Type{},
		oblCount: map[string]int{}, trusted: map[string]bool{}, havoced: map[string]bool{}, inlined: map[string]bool{},
		typeTags: map[string]int{}, globalIds: map[*ssa.Global]int{}, written: map[string]bool{}, ghost: map[string]*Term{}, usedContracts: map[string]bool{}, constOf: map[string]string{}, iteLit: map[string][3]string{}}
	vc.ghostRange = map[string][2]string{}
	vc.mode = "int"
	pkg := ""
	if c != nil {
		pkg = c.PkgPath
		if c.Mode != "" {
			vc.mode = c.Mode
		} else if m := eng.cs.pragma(pkg, "mode"); m != "" {
			vc.mode = m
		}
		vc.wrap = c.Arith == "wrap"
		vc.noNil = c.NoNil || eng.cs.pragma(pkg, "nilchecks") == "off"
		vc.noSafety = c.NoSafety
		if c.NoSafety {
			vc.noNil = true
		}
	}
	if eng.cs.pragma(pkg, "strings") == "ordered" {
		vc.absStr = true
	}
	return vc
}

// ---------- obligations ----------

var propTagRe = regexp.MustCompile(`(?:^|\.)(C\d\d)_`)

func (vc *VC) oblige(st *State, kind, goal, desc string, pos token.Pos, top bool) *Obligation {
	if vc.suppress > 0 || st.dead {
		return nil
	}
	if vc.noSafety {
		switch kind {
		case "bounds", "bounds.slice", "bounds.make", "nil", "overflow", "div0", "shift", "typeassert", "nilmap":
			return nil // contract says "nosafety": only permission/functional obligations are generated
		}
	}
	if vc.eng.prop != "" {
		if m := propTagRe.FindStringSubmatch(kind); m != nil {
			if m[1] != vc.eng.prop {
				return nil // clause of another property (checked by that property's command)
			}
		} else if c := vc.contract; c != nil && len(c.Props) > 1 && c.Props[0] != vc.eng.prop && c.hasTaggedClause() {
			// a function listed under several properties: its untagged clauses and
			// its safety obligations belong to the first one
			return nil
		}
	}
	if goal == "true" {
		// trivially discharged; still count it (cheap) so vacuity stats are honest
	}
	n := vc.oblCount[kind]
	vc.oblCount[kind] = n + 1
	name := fmt.Sprintf("%s#%s", vc.fnName, kind)
	if !top || n > 0 {
		if !strings.HasPrefix(kind, "post.") && !strings.HasPrefix(kind, "lemma") || n > 0 {
			name = fmt.Sprintf("%s#%s.%d", vc.fnName, kind, n)
		}
	}
	o := &Obligation{Name: name, Kind: kind, Desc: desc, Top: top, Fn: vc.fnName, Prefix: len(vc.cmds), Reach: st.reach, Goal: goal}
	if pos.IsValid() {
		p := vc.eng.fset.Position(pos)
		o.Pos = fmt.Sprintf("%s:%d", shortPath(p.Filename), p.Line)
	}
	vc.obls = append(vc.obls, o)
	return o
}

func shortPath(p string) string {
	if i := strings.Index(p, "/repo/"); i >= 0 {
		return p[i+6:]
	}
	return p
}

// after an obligation we may assume it (it has been checked separately).
func (vc *VC) obligeAndAssume(st *State, kind, goal, desc string, pos token.Pos) {
	vc.oblige(st, kind, goal, desc, pos, false)
	vc.assumeUnder(st.reach, goal)
}

// ---------- heap ----------

func (vc *VC) regHeap(name, valSort string, t types.Type) {
	if _, ok := vc.heapSort[name]; !ok {
		vc.heapSort[name] = valSort
		vc.heapType[name] = t
		vc.heapVars = append(vc.heapVars, name)
	}
}

func (vc *VC) heapGet(st *State, name string) string {
	if t, ok := st.heap[name]; ok {
		return t
	}
	ver := func(epoch int) string {
		n := fmt.Sprintf("%s@%d", name, epoch)
		if !vc.declared[n] {
			vc.declared[n] = true
			vc.declare(n, "(Array Ref "+vc.heapSort[name]+")")
			vc.typedHeapAxiom(name, n)
		}
		return n
	}
	if len(st.alts) > 0 {
		// state merged from paths with different havoc epochs: a heap variable
		// first touched after the merge is the ite of its per-path versions
		t := ver(st.alts[len(st.alts)-1].epoch)
		for i := len(st.alts) - 2; i >= 0; i-- {
			t = ite(st.alts[i].cond, ver(st.alts[i].epoch), t)
		}
		if len(t) > 60 {
			n := vc.fresh(name)
			vc.declare(n, "(Array Ref "+vc.heapSort[name]+")")
			vc.assume("(= " + n + " " + t + ")")
			t = n
		}
		st.heap[name] = t
		return t
	}
	return ver(st.epoch)
}

type epochAlt struct {
	cond  string
	epoch int
}

// typedHeapAxiom: every value stored in a fresh (unconstrained) heap version
// satisfies the typing invariant of its Go type.
func (vc *VC) typedHeapAxiom(name, version string) {
	if r, ok := vc.ghostRange[name]; ok {
		lo, _ := new(big.Int).SetString(r[0], 10)
		hi, _ := new(big.Int).SetString(r[1], 10)
		if lo != nil && hi != nil {
			v := "(select " + version + " nil)"
			vc.assume(and(vc.le(vc.bigLit(lo, 64), v, true), vc.lt(v, vc.bigLit(hi, 64), true)))
		}
	}
	t := vc.heapType[name]
	if t == nil {
		return
	}
	switch {
	case strings.HasPrefix(name, "HA_"):
		el := &Term{"(select (select " + version + " r) i)", vc.sortOf(t), t}
		if f := vc.typingFact(el); f != "true" {
			vc.assume("(forall ((r Ref) (i " + vc.idxSort() + ")) (! " + f + " :pattern (" + el.S + ")))")
		}
	case strings.HasPrefix(name, "HM_"):
	default:
		el := &Term{"(select " + version + " r)", vc.sortOf(t), t}
		if f := vc.typingFact(el); f != "true" {
			vc.assume("(forall ((r Ref)) (! " + f + " :pattern (" + el.S + ")))")
		}
	}
}

func (vc *VC) heapSet(st *State, name, term string) {
	vc.written[name] = true
	if len(term) > 60 {
		n := vc.fresh(name)
		vc.declare(n, "(Array Ref "+vc.heapSort[name]+")")
		vc.assume("(= " + n + " " + term + ")")
		term = n
	}
	st.heap[name] = term
}

func (vc *VC) havocHeapVar(st *State, name string) {
	n := vc.fresh(name)
	vc.declare(n, "(Array Ref "+vc.heapSort[name]+")")
	vc.typedHeapAxiom(name, n)
	st.heap[name] = n
	vc.written[name] = true
}

func (vc *VC) havocAll(st *State) {
	// ghost variables are specification state: code without a contract cannot change them
	ghosts := map[string]string{}
	for _, h := range vc.heapVars {
		if strings.HasPrefix(h, "G_") {
			ghosts[h] = vc.heapGet(st, h)
		}
	}
	// cells of local variables that only this function (and its directly called
	// function literals) can reach keep their contents
	type kept struct{ h, ref, old string }
	var keep []kept
	for _, pc := range vc.privCells {
		keep = append(keep, kept{pc[0], pc[1], vc.heapGet(st, pc[0])})
	}
	vc.nepoch++
	st.epoch = vc.nepoch
	st.alts = nil
	st.heap = map[string]string{}
	for _, h := range vc.heapVars {
		if g, ok := ghosts[h]; ok {
			st.heap[h] = g
			continue
		}
		vc.written[h] = true
	}
	for _, k := range keep {
		vc.assume("(= (select " + vc.heapGet(st, k.h) + " " + k.ref + ") (select " + k.old + " " + k.ref + "))")
	}
	a := vc.fresh("alloc")
	vc.declare(a, "Int")
	vc.assume("(>= " + a + " " + st.alloc + ")")
	st.alloc = a
}

func structOf(t types.Type) (*types.Struct, bool) {
	s, ok := types.Unalias(t).Underlying().(*types.Struct)
	return s, ok
}

func arrayOf(t types.Type) (*types.Array, bool) {
	a, ok := types.Unalias(t).Underlying().(*types.Array)
	return a, ok
}

func (vc *VC) fieldHV(structT types.Type, i int) string {
	st, _ := structOf(structT)
	f := st.Field(i)
	name := "H_" + typeName(structT) + "_" + sanitize(f.Name())
	vc.regHeap(name, vc.sortOf(f.Type()), f.Type())
	return name
}

func (vc *VC) arrHV(elem types.Type) string {
	es := vc.sortOf(elem)
	name := "HA_" + sanitize(es)
	vc.regHeap(name, "(Array "+vc.idxSort()+" "+es+")", elem)
	return name
}

func (vc *VC) cellHV(t types.Type) string {
	s := vc.sortOf(t)
	name := "HC_" + sanitize(s)
	vc.regHeap(name, s, t)
	return name
}

func subRef(r string, i int) string {
	return fmt.Sprintf("(mk-ref (rid %s) (+ (* (rpath %s) 256) %d))", r, r, i+1)
}

// loadRef loads the value of type t stored at object reference r.
func (vc *VC) loadRef(st *State, r string, t types.Type) *Term {
	if s, ok := structOf(t); ok {
		sn := vc.sortOf(t)
		if s.NumFields() == 0 {
			return &Term{"mk-" + sn, sn, t}
		}
		var fs []string
		for i := 0; i < s.NumFields(); i++ {
			ft := s.Field(i).Type()
			if _, ok := structOf(ft); ok {
				fs = append(fs, vc.loadRef(st, subRef(r, i), ft).S)
			} else if _, ok := arrayOf(ft); ok {
				fs = append(fs, vc.loadRef(st, subRef(r, i), ft).S)
			} else {
				fs = append(fs, "(select "+vc.heapGet(st, vc.fieldHV(t, i))+" "+r+")")
			}
		}
		return &Term{"(mk-" + sn + " " + strings.Join(fs, " ") + ")", sn, t}
	}
	if a, ok := arrayOf(t); ok {
		return &Term{"(select " + vc.heapGet(st, vc.arrHV(a.Elem())) + " " + r + ")", vc.sortOf(t), t}
	}
	return &Term{"(select " + vc.heapGet(st, vc.cellHV(t)) + " " + r + ")", vc.sortOf(t), t}
}

func (vc *VC) storeRef(st *State, r string, t types.Type, v string) {
	if s, ok := structOf(t); ok {
		sn := vc.sortOf(t)
		for i := 0; i < s.NumFields(); i++ {
			ft := s.Field(i).Type()
			fv := fmt.Sprintf("(%s_f%d %s)", sn, i, v)
			if _, ok := structOf(ft); ok {
				vc.storeRef(st, subRef(r, i), ft, fv)
			} else if _, ok := arrayOf(ft); ok {
				vc.storeRef(st, subRef(r, i), ft, fv)
			} else {
				hv := vc.fieldHV(t, i)
				vc.heapSet(st, hv, "(store "+vc.heapGet(st, hv)+" "+r+" "+fv+")")
			}
		}
		return
	}
	if a, ok := arrayOf(t); ok {
		hv := vc.arrHV(a.Elem())
		vc.heapSet(st, hv, "(store "+vc.heapGet(st, hv)+" "+r+" "+v+")")
		return
	}
	hv := vc.cellHV(t)
	vc.heapSet(st, hv, "(store "+vc.heapGet(st, hv)+" "+r+" "+v+")")
}

func (vc *VC) loadLoc(st *State, l *Loc) *Term {
	v := "(select " + vc.heapGet(st, l.HV) + " " + l.Ref + ")"
	for _, s := range l.Path {
		if s.isIdx {
			v = "(select " + v + " " + s.idx + ")"
		} else {
			v = fmt.Sprintf("(%s_f%d %s)", s.sort, s.fld, v)
		}
	}
	return &Term{v, vc.sortOf(l.T), l.T}
}

func (vc *VC) updPath(v string, path []pathStep, x string) string {
	if len(path) == 0 {
		return x
	}
	s := path[0]
	if s.isIdx {
		return "(store " + v + " " + s.idx + " " + vc.updPath("(select "+v+" "+s.idx+")", path[1:], x) + ")"
	}
	st, _ := structOf(s.ct)
	var fs []string
	for i := 0; i < st.NumFields(); i++ {
		f := fmt.Sprintf("(%s_f%d %s)", s.sort, i, v)
		if i == s.fld {
			f = vc.updPath(f, path[1:], x)
		}
		fs = append(fs, f)
	}
	return "(mk-" + s.sort + " " + strings.Join(fs, " ") + ")"
}

func (vc *VC) storeLoc(st *State, l *Loc, x string) {
	h := vc.heapGet(st, l.HV)
	root := "(select " + h + " " + l.Ref + ")"
	if len(l.Path) > 1 {
		// name the root to avoid term explosion
		rt := vc.fresh("root")
		vc.declare(rt, vc.heapSort[l.HV])
		vc.assume("(= " + rt + " " + root + ")")
		root = rt
	}
	vc.heapSet(st, l.HV, "(store "+h+" "+l.Ref+" "+vc.updPath(root, l.Path, x)+")")
}

// ---------- pointers ----------

func (vc *VC) nilCheck(st *State, p Val, pos token.Pos, what string) {
	if vc.noNil {
		return
	}
	if t, ok := p.(*Term); ok {
		if strings.HasPrefix(t.S, "(mk-ref ") {
			return // freshly allocated, sub-object of checked object, or global
		}
		vc.obligeAndAssume(st, "nil", "(not (= "+t.S+" nil))", "nil dereference: "+what, pos)
	}
}

func (vc *VC) fieldAddr(st *State, x Val, ptrT types.Type, i int, pos token.Pos) Val {
	pt := types.Unalias(ptrT).Underlying().(*types.Pointer)
	structT := pt.Elem()
	s, _ := structOf(structT)
	ft := s.Field(i).Type()
	switch x := x.(type) {
	case *Term:
		vc.nilCheck(st, x, pos, "field "+s.Field(i).Name())
		if _, ok := structOf(ft); ok {
			return &Term{subRef(x.S, i), SRef, types.NewPointer(ft)}
		}
		if _, ok := arrayOf(ft); ok {
			return &Term{subRef(x.S, i), SRef, types.NewPointer(ft)}
		}
		return &Loc{HV: vc.fieldHV(structT, i), Ref: x.S, T: ft, RT: ft}
	case *Loc:
		nl := *x
		nl.Path = append(append([]pathStep{}, x.Path...), pathStep{fld: i, sort: vc.sortOf(structT), ct: structT})
		nl.T = ft
		return &nl
	case *GlobalConst:
		return &GlobalConst{T: &Term{fmt.Sprintf("(%s_f%d %s)", vc.sortOf(structT), i, x.T.S), vc.sortOf(ft), ft}}
	}
	unsup("fieldAddr on %T", x)
	return nil
}

// GlobalConst is the address of (a part of) a package variable that is never
// written after initialisation; loads read the constant value.
type GlobalConst struct{ T *Term }

func (vc *VC) boundsCheck(st *State, i string, n string, pos token.Pos, what string) {
	z := vc.intLit(0, 64)
	vc.obligeAndAssume(st, "bounds", and(vc.le(z, i, true), vc.lt(i, n, true)), "index in range: "+what, pos)
}

// toIdx converts an integer term of Go type t to the index sort (Go int).
func (vc *VC) toIdx(tm *Term) string {
	if vc.mode != "bv" {
		return tm.S
	}
	bits, signed := intInfo(tm.T)
	if bits == 64 {
		return tm.S
	}
	if signed {
		return fmt.Sprintf("((_ sign_extend %d) %s)", 64-bits, tm.S)
	}
	return fmt.Sprintf("((_ zero_extend %d) %s)", 64-bits, tm.S)
}

func (vc *VC) indexAddr(st *State, x Val, xT types.Type, idx *Term, pos token.Pos) Val {
	i := vc.toIdx(idx)
	switch u := types.Unalias(xT).Underlying().(type) {
	case *types.Pointer: // pointer to array
		a, _ := arrayOf(u.Elem())
		n := vc.intLit(a.Len(), 64)
		vc.boundsCheck(st, i, n, pos, "array")
		switch x := x.(type) {
		case *Term:
			vc.nilCheck(st, x, pos, "array index")
			return &Loc{HV: vc.arrHV(a.Elem()), Ref: x.S, Path: []pathStep{{isIdx: true, idx: i}}, T: a.Elem(), RT: u.Elem()}
		case *Loc:
			nl := *x
			nl.Path = append(append([]pathStep{}, x.Path...), pathStep{isIdx: true, idx: i})
			nl.T = a.Elem()
			return &nl
		case *GlobalConst:
			return &GlobalConst{T: &Term{"(select " + x.T.S + " " + i + ")", vc.sortOf(a.Elem()), a.Elem()}}
		}
	case *types.Slice:
		s := x.(*Term)
		vc.boundsCheck(st, i, "(s-len "+s.S+")", pos, "slice")
		return &Loc{HV: vc.arrHV(u.Elem()), Ref: "(s-ref " + s.S + ")",
			Path: []pathStep{{isIdx: true, idx: vc.at("(s-off "+s.S+")", i)}}, T: u.Elem()}
	}
	unsup("indexAddr on %s", xT)
	return nil
}

func (vc *VC) load(st *State, p Val, pos token.Pos) *Term {
	switch p := p.(type) {
	case *Loc:
		t := vc.loadLoc(st, p)
		t = vc.nameLoaded(st, t)
		return t
	case *Term:
		vc.nilCheck(st, p, pos, "load")
		pt := types.Unalias(p.T).Underlying().(*types.Pointer)
		t := vc.loadRef(st, p.S, pt.Elem())
		return vc.nameLoaded(st, t)
	case *GlobalConst:
		return vc.nameLoaded(st, p.T)
	}
	unsup("load from %T", p)
	return nil
}

// nameLoaded names a loaded value and adds its typing facts (typed heap).
func (vc *VC) nameLoaded(st *State, t *Term) *Term {
	n := vc.fresh("ld")
	vc.declare(n, t.Sort)
	vc.assume("(= " + n + " " + t.S + ")")
	r := &Term{n, t.Sort, t.T}
	vc.assume(vc.typingFact(r))
	vc.assumeAllocated(st, r)
	vc.assumeTypeInv(st, r)
	return r
}

func (vc *VC) assumeAllocated(st *State, r *Term) {
	if r.T == nil {
		return
	}
	switch types.Unalias(r.T).Underlying().(type) {
	case *types.Pointer, *types.Map, *types.Chan:
		vc.assume("(< (rid " + r.S + ") " + st.alloc + ")")
	case *types.Slice:
		vc.assume("(< (rid (s-ref " + r.S + ")) " + st.alloc + ")")
	}
}

func (vc *VC) store(st *State, p Val, v *Term, pos token.Pos) {
	vc.obligeTypeInv(st, v, "typeinv.store", "value stored to memory satisfies its type invariant", pos)
	switch p := p.(type) {
	case *Loc:
		vc.storeLoc(st, p, v.S)
		return
	case *Term:
		vc.nilCheck(st, p, pos, "store")
		pt := types.Unalias(p.T).Underlying().(*types.Pointer)
		vc.storeRef(st, p.S, pt.Elem(), v.S)
		return
	}
	unsup("store to %T", p)
}

func (vc *VC) newObject(st *State, t types.Type, zero bool) *Term {
	r := "(mk-ref " + st.alloc + " 0)"
	rn := vc.fresh("new")
	vc.declare(rn, SRef)
	vc.assume("(= " + rn + " " + r + ")")
	a := vc.fresh("alloc")
	vc.declare(a, "Int")
	vc.assume("(= " + a + " (+ " + st.alloc + " 1))")
	st.alloc = a
	if zero {
		vc.storeRef(st, r, t, vc.zero(t).S)
	}
	return &Term{r, SRef, types.NewPointer(t)}
}

func (vc *VC) global(g *ssa.Global) *Term {
	id, ok := vc.globalIds[g]
	if !ok {
		id = len(vc.globalIds) + 1
		vc.globalIds[g] = id
	}
	return &Term{fmt.Sprintf("(mk-ref (- %d) 0)", id), SRef, g.Type()}
}

// ---------- state merging ----------

func (vc *VC) mergeVal(conds []string, vals []Val) (Val, bool) {
	first := vals[0]
	same := true
	for _, v := range vals[1:] {
		if !sameVal(first, v) {
			same = false
			break
		}
	}
	if same {
		return first, true
	}
	switch f := first.(type) {
	case *Term:
		s := ""
		for i := len(vals) - 1; i >= 0; i-- {
			t, ok := vals[i].(*Term)
			if !ok || t.Sort != f.Sort {
				return nil, false
			}
			if s == "" {
				s = t.S
			} else {
				s = ite(conds[i], t.S, s)
			}
		}
		n := vc.fresh("phi")
		vc.declare(n, f.Sort)
		vc.assume("(= " + n + " " + s + ")")
		if len(vals) == 2 && vc.mode != "bv" {
			// a choice between two literals (e.g. xor := 0 / 0xff): remembered so
			// that bit operations with it can be encoded exactly per alternative
			a, b := vals[0].(*Term), vals[1].(*Term)
			if _, ok := vc.litVal(a.S); ok {
				if _, ok := vc.litVal(b.S); ok {
					vc.iteLit[n] = [3]string{conds[0], a.S, b.S}
				}
			}
		}
		return &Term{n, f.Sort, f.T}, true
	case Tuple:
		out := make(Tuple, len(f))
		for k := range f {
			var vs []Val
			for _, v := range vals {
				tv, ok := v.(Tuple)
				if !ok || len(tv) != len(f) {
					return nil, false
				}
				vs = append(vs, tv[k])
			}
			m, ok := vc.mergeVal(conds, vs)
			if !ok {
				return nil, false
			}
			out[k] = m
		}
		return out, true
	case *FuncVal, *FuncSet:
		// different function values on different paths: keep the set
		fs := &FuncSet{}
		for _, v := range vals {
			switch x := v.(type) {
			case *FuncVal:
				fs.Alts = append(fs.Alts, x)
			case *FuncSet:
				fs.Alts = append(fs.Alts, x.Alts...)
			default:
				return nil, false
			}
		}
		return fs, true
	case *Loc:
		// merge locations that differ only in ref / index terms
		var refs []Val
		idxs := make([][]Val, len(f.Path))
		for _, v := range vals {
			l, ok := v.(*Loc)
			if !ok || l.HV != f.HV || len(l.Path) != len(f.Path) {
				return nil, false
			}
			refs = append(refs, &Term{l.Ref, SRef, nil})
			for k, s := range l.Path {
				if s.isIdx != f.Path[k].isIdx || s.fld != f.Path[k].fld {
					return nil, false
				}
				if s.isIdx {
					idxs[k] = append(idxs[k], &Term{s.idx, vc.idxSort(), nil})
				}
			}
		}
		nl := *f
		r, _ := vc.mergeVal(conds, refs)
		nl.Ref = r.(*Term).S
		nl.Path = append([]pathStep{}, f.Path...)
		for k := range nl.Path {
			if nl.Path[k].isIdx {
				m, _ := vc.mergeVal(conds, idxs[k])
				nl.Path[k].idx = m.(*Term).S
			}
		}
		return &nl, true
	}
	return nil, false
}

func sameVal(a, b Val) bool {
	switch a := a.(type) {
	case *Term:
		b, ok := b.(*Term)
		return ok && a.S == b.S
	case *Loc:
		b, ok := b.(*Loc)
		if !ok || a.HV != b.HV || a.Ref != b.Ref || len(a.Path) != len(b.Path) {
			return false
		}
		for i := range a.Path {
			if a.Path[i].isIdx != b.Path[i].isIdx || a.Path[i].idx != b.Path[i].idx || a.Path[i].fld != b.Path[i].fld {
				return false
			}
		}
		return true
	case Tuple:
		b, ok := b.(Tuple)
		if !ok || len(a) != len(b) {
			return false
		}
		for i := range a {
			if !sameVal(a[i], b[i]) {
				return false
			}
		}
		return true
	case *FuncVal:
		b, ok := b.(*FuncVal)
		return ok && a == b
	}
	return false
}

// mergeStates joins states arriving over edges with the given conditions
// (cond[i] is the full condition: reach of source && edge condition).
func (vc *VC) mergeStates(sts []*State, conds []string) *State {
	if len(sts) == 1 {
		n := sts[0].clone()
		n.reach = vc.nameBool("reach", conds[0])
		return n
	}
	n := &State{env: map[ssa.Value]Val{}, heap: map[string]string{}, names: map[string]Val{}}
	n.reach = vc.nameBool("reach", or(conds...))
	// panic status
	mergeStr := func(get func(*State) string, dflt string) string {
		any := false
		for _, s := range sts {
			if get(s) != "" {
				any = true
			}
		}
		if !any {
			return ""
		}
		out := ""
		for i := len(sts) - 1; i >= 0; i-- {
			v := get(sts[i])
			if v == "" {
				v = dflt
			}
			if out == "" {
				out = v
			} else if out != v {
				out = ite(conds[i], v, out)
			}
		}
		return out
	}
	n.panicking = mergeStr(func(s *State) string { return s.panicking }, "false")
	n.pval = mergeStr(func(s *State) string { return s.pval }, "(mk-iface 0 0)")
	n.recov = mergeStr(func(s *State) string { return s.recov }, "false")
	// env: keys present in all
	for k, v0 := range sts[0].env {
		vals := []Val{v0}
		ok := true
		for _, s := range sts[1:] {
			v, has := s.env[k]
			if !has {
				ok = false
				break
			}
			vals = append(vals, v)
		}
		if !ok {
			continue
		}
		if m, ok := vc.mergeVal(conds, vals); ok {
			n.env[k] = m
		}
	}
	// source-level names (used only by specifications): a name bound on some
	// of the incoming paths keeps its value there and is unconstrained elsewhere
	nameSet := map[string]*Term{}
	for _, s := range sts {
		for k, v := range s.names {
			if t, ok := v.(*Term); ok && nameSet[k] == nil {
				nameSet[k] = t
			}
		}
	}
	for k, proto := range nameSet {
		var vals []Val
		allSame := true
		for _, s := range sts {
			v, has := s.names[k]
			if t, isT := v.(*Term); has && isT && t.Sort == proto.Sort {
				vals = append(vals, t)
				if t.S != proto.S {
					allSame = false
				}
			} else {
				allSame = false
				f := vc.freshSort("nm_"+k, proto.Sort)
				f.T = proto.T
				vals = append(vals, f)
			}
		}
		if allSame {
			n.names[k] = proto
			continue
		}
		if m, ok := vc.mergeVal(conds, vals); ok {
			n.names[k] = m
		}
	}
	for k, v0 := range sts[0].names {
		if _, done := n.names[k]; done {
			continue
		}
		ok := true
		for _, s := range sts[1:] {
			v, has := s.names[k]
			if !has || !sameVal(v0, v) {
				ok = false
				break
			}
		}
		if ok {
			n.names[k] = v0
		}
	}
	// heap
	sameEpoch := len(sts[0].alts) == 0
	for _, s := range sts[1:] {
		if s.epoch != sts[0].epoch || len(s.alts) > 0 {
			sameEpoch = false
		}
	}
	var keys []string
	seen := map[string]bool{}
	for _, s := range sts {
		for k := range s.heap {
			if !seen[k] {
				seen[k] = true
				keys = append(keys, k)
			}
		}
	}
	if sameEpoch {
		n.epoch = sts[0].epoch
	} else {
		// heap variables first touched after this join are resolved per path
		n.epoch = sts[0].epoch
		for i, s := range sts {
			if len(s.alts) > 0 {
				for _, a := range s.alts {
					n.alts = append(n.alts, epochAlt{and(conds[i], a.cond), a.epoch})
				}
			} else {
				n.alts = append(n.alts, epochAlt{conds[i], s.epoch})
			}
		}
	}
	sort.Strings(keys)
	for _, k := range keys {
		var vals []Val
		for _, s := range sts {
			vals = append(vals, &Term{vc.heapGet(s, k), "(Array Ref " + vc.heapSort[k] + ")", nil})
		}
		m, _ := vc.mergeVal(conds, vals)
		n.heap[k] = m.(*Term).S
	}
	// alloc
	var avals []Val
	for _, s := range sts {
		avals = append(avals, &Term{s.alloc, "Int", nil})
	}
	m, _ := vc.mergeVal(conds, avals)
	n.alloc = m.(*Term).S
	return n
}

func (vc *VC) nameBool(hint, t string) string {
	if len(t) < 30 {
		return t
	}
	n := vc.fresh(hint)
	vc.declare(n, SBool)
	vc.assume("(= " + n + " " + t + ")")
	return n
}
