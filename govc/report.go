package main

import (
	"encoding/json"
	"fmt"
	"os"
	"path/filepath"
	"sort"
	"strings"
	"time"
)

type Report struct {
	eng      *Engine
	prop     string
	tier     string
	seed     int
	pc       *PropCfg
	frs      []*FuncResult
	verbose  bool
	exitCode int

	LoadS, GenS, SolveS float64

	obligations int
	discharged  int
	failed      []*failure
	undecided   []*Obligation
	covers      int
	coversSat   int
	unsupported []string
	unbound     []string
	lines       []string
	baseline    map[string]bool
	slow        map[string]bool
	knownHit    []string
	missing     []string
	known       []Finding
	// replayUntil: no new replay attempt is started after this instant (the
	// verdict does not depend on replays; they only add the failing input)
	replayUntil time.Time
}

type failure struct {
	o      *Obligation
	fr     *FuncResult
	reason string
	replay string
	input  bool // a failing input was reproduced on the real code
	testFile string
	known  *Finding
}

func buildReport(eng *Engine, prop, tier string, seed int, pc *PropCfg, frs []*FuncResult, verif string, verbose bool) *Report {
	r := &Report{eng: eng, prop: prop, tier: tier, seed: seed, pc: pc, frs: frs, verbose: verbose}
	r.baseline = map[string]bool{}
	r.slow = map[string]bool{}
	if data, err := os.ReadFile(filepath.Join(verif, "baseline", prop+".obligations")); err == nil {
		for _, ln := range strings.Split(string(data), "\n") {
			if f := strings.Fields(ln); len(f) > 0 && !strings.HasPrefix(ln, "#") {
				if f[0] == "slow" && len(f) > 1 {
					// discharged on the unchanged tree, but slowly: a timeout of
					// this obligation is reported as undecided, never as a violation
					r.slow[f[1]] = true
					continue
				}
				r.baseline[f[0]] = true
			}
		}
	}
	for _, f := range loadFindings(filepath.Join(verif, "known_findings.jsonl")) {
		if f.Property == prop {
			r.known = append(r.known, f)
		}
	}
	seen := map[string]bool{}
	for _, fr := range frs {
		if fr.Unsupported != "" {
			r.unsupported = append(r.unsupported, fr.Name+": "+fr.Unsupported)
		}
		if fr.Unbound != "" {
			r.unbound = append(r.unbound, fr.Name+": "+fr.Unbound)
		}
		for _, o := range fr.Obls {
			seen[o.Name] = true
			if o.Cover {
				r.covers++
				switch o.Status {
				case "unsat":
					r.failed = append(r.failed, &failure{o: o, fr: fr, reason: "vacuous: " + o.Desc + " is contradictory"})
				default:
					r.coversSat++
				}
				continue
			}
			isKnown := false
			for _, k := range r.known {
				if k.Status == "known" && k.Obligation == o.Name && o.Status != "unsat" {
					isKnown = true
				}
			}
			if isKnown {
				// a recorded known finding: reported as such, and not part of what
				// this run counts as its obligations
				r.failed = append(r.failed, &failure{o: o, fr: fr, reason: "known finding (" + o.Status + ")"})
				r.knownHit = append(r.knownHit, o.Name)
				continue
			}
			r.obligations++
			switch o.Status {
			case "unsat":
				r.discharged++
			case "sat":
				r.failed = append(r.failed, &failure{o: o, fr: fr, reason: "refuted by " + o.Solver})
			default:
				if r.baseline[o.Name] || (o.Top && !r.slow[o.Name]) {
					r.failed = append(r.failed, &failure{o: o, fr: fr, reason: "no longer discharged (" + o.Status + ")"})
				} else if r.slow[o.Name] && o.LongTried {
					r.failed = append(r.failed, &failure{o: o, fr: fr, reason: "no longer discharged (" + o.Status + " after a 900 s attempt run alone; it discharged within about a minute on the unchanged tree)"})
				} else {
					r.undecided = append(r.undecided, o)
				}
			}
		}
	}
	for n := range r.baseline {
		if !seen[n] {
			r.missing = append(r.missing, n)
		}
	}
	sort.Strings(r.missing)
	return r
}

func (r *Report) finish(verif string, writeBase bool, wall float64, writeEvidence bool) {
	// replay + verdict lines
	repDir := filepath.Join(verif, "replays", r.prop)
	os.RemoveAll(repDir)
	r.replayUntil = time.Now().Add(4 * time.Minute)
	if r.tier == "thorough" {
		r.replayUntil = time.Now().Add(20 * time.Minute)
	}
	violations := 0
	for _, f := range r.failed {
		for i := range r.known {
			k := &r.known[i]
			if k.Status == "known" && k.Obligation == f.o.Name {
				f.known = k
			}
		}
		if f.known != nil {
			fmt.Printf("KNOWN-FINDING: property=%s %s: %s\n", r.prop, f.o.Name, f.known.What)
			continue
		}
		os.MkdirAll(repDir, 0o755)
		r.replay(f, repDir)
		violations++
		suffix := ""
		if !f.input {
			suffix = " no-failing-input-found"
		}
		fmt.Printf("VIOLATION property=%s replay=%s%s\n", r.prop, f.replay, suffix)
		fmt.Printf("  obligation %s failed: %s\n  %s [%s]\n", f.o.Name, f.reason, f.o.Desc, f.o.Pos)
	}
	for _, u := range r.unsupported {
		fmt.Printf("UNSUPPORTED %s\n", u)
	}
	for _, u := range r.unbound {
		fmt.Printf("UNBOUND %s\n", u)
	}
	for _, o := range r.undecided {
		fmt.Printf("UNDECIDED %s (%s by %s in %.1fs): %s [%s]\n", o.Name, o.Status, o.Solver, o.Secs, o.Desc, o.Pos)
		if r.verbose && o.Status == "error" {
			fmt.Println("   ", firstLines(o.Model, 5))
		}
	}
	if len(r.missing) > 0 {
		fmt.Printf("MISSING %d baseline obligations were not generated (code or contract shape changed): %s\n", len(r.missing), strings.Join(head(r.missing, 5), ", "))
	}
	if r.obligations == 0 {
		fmt.Printf("HARNESS-ERROR property=%s no obligations generated\n", r.prop)
		r.exitCode = 2
	}
	if violations > 0 {
		r.exitCode = 1
	}
	level := "proof"
	if r.discharged != r.obligations || len(r.unsupported) > 0 || len(r.unbound) > 0 || len(r.missing) > 0 {
		level = "other"
	}
	fmt.Printf("govc property=%s tier=%s functions=%d obligations=%d discharged=%d failed=%d undecided=%d covers=%d/%d level=%s load=%.1fs gen=%.1fs solve=%.1fs\n",
		r.prop, r.tier, len(r.frs), r.obligations, r.discharged, len(r.failed), len(r.undecided), r.coversSat, r.covers, level, r.LoadS, r.GenS, r.SolveS)
	if r.verbose {
		for _, fr := range r.frs {
			for _, o := range fr.Obls {
				fmt.Printf("  %-8s %-7s %5.2fs %s  -- %s [%s]\n", o.Status, o.Solver, o.Secs, o.Name, o.Desc, o.Pos)
			}
		}
	}
	if writeBase {
		var names []string
		for _, fr := range r.frs {
			for _, o := range fr.Obls {
				if !o.Cover && o.Status == "unsat" && o.Secs < 5 && !o.Retried {
					names = append(names, o.Name)
				} else if !o.Cover && o.Status == "unsat" {
					names = append(names, "slow "+o.Name)
				}
			}
		}
		sort.Strings(names)
		os.MkdirAll(filepath.Join(verif, "baseline"), 0o755)
		os.WriteFile(filepath.Join(verif, "baseline", r.prop+".obligations"),
			[]byte("# obligations that discharge on the unchanged tree (written by govc check -write-baseline)\n"+strings.Join(names, "\n")+"\n"), 0o644)
	}
	if writeEvidence {
		r.writeEvidence(verif, level, wall, violations)
	}
}

func head(s []string, n int) []string {
	if len(s) > n {
		return s[:n]
	}
	return s
}

func (r *Report) writeEvidence(verif, level string, wall float64, violations int) {
	type fnInfo struct {
		Name        string   `json:"name"`
		File        string   `json:"file"`
		Mode        string   `json:"mode"`
		Instrs      int      `json:"ssa_instructions"`
		Obligations int      `json:"obligations"`
		Inlined     []string `json:"inlined_callees,omitempty"`
		Havoced     []string `json:"external_calls_havoced,omitempty"`
		Status      string   `json:"status"`
	}
	var fns []fnInfo
	trusted := map[string]bool{}
	notes := map[string]bool{}
	bySolver := map[string]map[string]float64{}
	top, aux := 0, 0
	var samples []any
	maxS := 0.0
	for _, fr := range r.frs {
		fi := fnInfo{Name: fr.Name, File: fr.File, Mode: fr.Mode, Instrs: fr.Instrs, Inlined: fr.Inlined, Havoced: fr.Havoced, Status: "verified"}
		if fr.Unsupported != "" {
			fi.Status = "unsupported: " + fr.Unsupported
		}
		if fr.Unbound != "" {
			fi.Status = "unbound: " + fr.Unbound
		}
		for _, t := range fr.Trusted {
			trusted[t] = true
		}
		for _, n := range fr.Notes {
			notes[n] = true
		}
		for _, h := range fr.Havoced {
			trusted["external call (result and heap havoced): "+h] = true
		}
		for _, o := range fr.Obls {
			if o.Cover {
				continue
			}
			fi.Obligations++
			if o.Status != "unsat" {
				fi.Status = "not fully discharged"
			}
			if o.Top {
				top++
			} else {
				aux++
			}
			m := bySolver[o.Solver]
			if m == nil {
				m = map[string]float64{}
				bySolver[o.Solver] = m
			}
			if len(o.Confirmed) > 0 {
				m["confirmed_by_another_solver"]++
			}
			if len(o.Confirmed) >= 2 {
				m["confirmed_by_all_three"]++
			}
			m["count"]++
			m["seconds"] += o.Secs
			if o.Secs > m["max_seconds"] {
				m["max_seconds"] = o.Secs
			}
			if o.Secs > maxS {
				maxS = o.Secs
			}
			if len(samples) < 6 && (o.Top || len(samples) < 3) {
				samples = append(samples, map[string]any{"obligation": o.Name, "kind": o.Kind, "what": o.Desc, "at": o.Pos,
					"goal_smt": trunc(o.Goal, 400), "result": o.Status, "solver": o.Solver, "seconds": round3(o.Secs)})
			}
		}
		fns = append(fns, fi)
	}
	var failedNames []map[string]any
	for _, f := range r.failed {
		e := map[string]any{"obligation": f.o.Name, "reason": f.reason, "replay": f.replay, "failing_input_reproduced": f.input}
		if f.known != nil {
			e["known_finding"] = f.known.What
		}
		failedNames = append(failedNames, e)
	}
	var und []string
	for _, o := range r.undecided {
		und = append(und, o.Name+" ("+o.Status+")")
	}
	tb := keys(trusted)
	tb = append(tb, "go/packages + go/types + go/ssa (x/tools v0.50.0) as the semantics-preserving front end", "govc VC generator (this repository, /verif/govc)",
		"SMT solvers z3 4.8.12, z3 5.1.0 (z3-new), cvc5 1.0.x")
	seq := "no goroutine interleavings: each function is verified as a sequential step; sync.Mutex critical sections are atomic"
	var interf []string
	for _, fr := range r.frs {
		if fr.Contract != nil && len(fr.Contract.Shared) > 0 {
			interf = append(interf, fr.Name)
		}
	}
	if len(interf) > 0 {
		sort.Strings(interf)
		seq = "goroutine interleavings: " + strings.Join(interf, ", ") + " verified under interference by other threads (their `shared` locations are given arbitrary values before every call, constrained by the rely clauses listed in trusted_base; sequentially consistent atomics assumed); every other function is verified as a sequential step; sync.Mutex critical sections are atomic"
	}
	assumptions := []string{
		seq,
		"no out-of-memory, no stack overflow; garbage collector not modelled",
		"floating point, reflection, unsafe, channels, I/O are not modelled (functions using them are not under contract or the calls are havoced)",
		"termination is proved only for loops that carry a 'decreases' clause",
		"typed heap: values read from memory lie in the range of their Go type",
	}
	assumptions = append(assumptions, r.pc.Assume...)
	for n := range notes {
		assumptions = append(assumptions, n)
	}
	sort.Strings(assumptions[5:])
	cov := map[string]any{
		"obligations":              r.obligations,
		"discharged":               r.discharged,
		"checker_cmd":              fmt.Sprintf("/verif/check %s --tier %s  (govc: SSA weakest-precondition generator; z3-new first, then z3 4.8.12 / z3-new 5.1.0 / cvc5 raced)", r.prop, r.tier),
		"trusted_base":             tb,
		"functions_under_contract": fns,
		"top_level_obligations":    top,
		"auxiliary_obligations":    aux,
		"by_solver":                bySolver,
		"max_solver_seconds":       round3(maxS),
		"solver_seconds_total":     round3(r.SolveS),
		"vacuity_covers":           map[string]int{"run": r.covers, "satisfiable_or_unknown": r.coversSat},
		"undecided":                und,
		"unsupported":              r.unsupported,
		"unbound":                  r.unbound,
		"missing_baseline":         r.missing,
		"failed":                   failedNames,
		"samples":                  samples,
		"timing_s":                 map[string]float64{"load": round3(r.LoadS), "vcgen": round3(r.GenS), "solve": round3(r.SolveS)},
	}
	if level != "proof" {
		cov["explanation"] = "not every obligation was discharged on this run (see failed/undecided/unsupported/unbound); level recorded as 'other'"
	}
	if len(r.knownHit) > 0 {
		cov["known_findings"] = r.knownHit
		cov["known_findings_note"] = "obligations listed in /verif/known_findings.jsonl as genuine unrepaired defects: they failed on this run as recorded, are reported as KNOWN-FINDING lines and are not counted in obligations/discharged"
	}
	if len(samples) == 0 {
		cov["samples"] = []any{"no obligations"}
	}
	ev := map[string]any{
		"property_id": r.prop,
		"tier":        r.tier,
		"seed":        r.seed,
		"level":       level,
		"coverage":    cov,
		"assumptions": assumptions,
		"wall_s":      round3(wall),
		"violations":  violations,
	}
	os.MkdirAll(filepath.Join(verif, "evidence"), 0o755)
	data, _ := json.MarshalIndent(ev, "", " ")
	os.WriteFile(filepath.Join(verif, "evidence", r.prop+".json"), append(data, '\n'), 0o644)
}

func trunc(s string, n int) string {
	if len(s) > n {
		return s[:n] + "…"
	}
	return s
}

func round3(f float64) float64 { return float64(int(f*1000+0.5)) / 1000 }
