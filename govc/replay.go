package main

import (
	"fmt"
	"os"
	"path/filepath"
	"strings"
)

// replay writes the replay file for a failed obligation and, when the
// contract names a replay template, runs the counterexample against the real
// code (go test -overlay; nothing is written into /repo).
func (r *Report) replay(f *failure, dir string) {
	base := filepath.Join(dir, sanitize(f.o.Name))
	var b strings.Builder
	fmt.Fprintf(&b, "property: %s\nobligation: %s\nkind: %s\nwhat: %s\nat: %s\nreason: %s\nsolver: %s (%s, %.2fs)\n\n",
		r.prop, f.o.Name, f.o.Kind, f.o.Desc, f.o.Pos, f.reason, f.o.Solver, f.o.Status, f.o.Secs)
	b.WriteString("goal (SMT-LIB):\n" + f.o.Goal + "\n\nsolver output:\n" + f.o.Model + "\n")
	f.replay = base + ".txt"
	model := parseModel(f.o.Model)
	if f.fr.Contract != nil && f.fr.Contract.Replay != "" && f.o.Status == "sat" {
		ok, out, testFile := r.runTemplate(f, model, base)
		b.WriteString("\nreplay template: " + f.fr.Contract.Replay + "\nreplay test: " + testFile + "\nreplay output:\n" + out + "\n")
		if ok {
			f.input = true
			b.WriteString("\nRESULT: failing input reproduced on the real code\n")
		} else {
			b.WriteString("\nRESULT: no-failing-input-found (the replay did not fail on the real code)\n")
		}
	} else {
		b.WriteString("\nRESULT: no-failing-input-found (no replay template for this obligation or no model)\n")
	}
	os.WriteFile(f.replay, []byte(b.String()), 0o644)
}

// parseModel extracts (name value) pairs from a get-value answer.
func parseModel(out string) map[string]string {
	m := map[string]string{}
	i := strings.Index(out, "((")
	if i < 0 {
		return m
	}
	s := out[i+1:]
	// iterate over top-level "(name value)" groups
	depth := 0
	start := -1
	for k := 0; k < len(s); k++ {
		switch s[k] {
		case '(':
			if depth == 0 {
				start = k
			}
			depth++
		case ')':
			depth--
			if depth == 0 && start >= 0 {
				grp := s[start+1 : k]
				if sp := strings.IndexAny(grp, " \n"); sp > 0 {
					m[grp[:sp]] = strings.TrimSpace(grp[sp+1:])
				}
				start = -1
			}
			if depth < 0 {
				return m
			}
		}
	}
	return m
}

func (r *Report) runTemplate(f *failure, model map[string]string, base string) (bool, string, string) {
	return false, "templates not implemented yet", ""
}
