package main

import (
	"context"
	"encoding/json"
	"fmt"
	"go/types"
	"os"
	"os/exec"
	"path/filepath"
	"sort"
	"strings"
	"time"

	"golang.org/x/tools/go/ssa"
)

// replay writes the replay file for a failed obligation and tries to
// reproduce the failure on the real code: a candidate input is taken from the
// solver's model (or, when the solver gives none, from a small-scope search in
// which quantifiers are instantiated over a finite domain), rendered as Go
// values, and the real function is run under `go test -overlay` with the
// contract compiled to executable checks. Only a failing run on the real code
// counts as a reproduced counterexample.
func (r *Report) replay(f *failure, dir string) {
	base := filepath.Join(dir, sanitize(f.o.Name))
	var b strings.Builder
	fmt.Fprintf(&b, "property: %s\nobligation: %s\nkind: %s\nwhat: %s\nat: %s\nreason: %s\nsolver: %s (%s, %.2fs)\n\n",
		r.prop, f.o.Name, f.o.Kind, f.o.Desc, f.o.Pos, f.reason, f.o.Solver, f.o.Status, f.o.Secs)
	b.WriteString("goal (SMT-LIB):\n" + f.o.Goal + "\n\nsolver output:\n" + trunc(f.o.Model, 4000) + "\n")
	f.replay = base + ".txt"
	func() {
		defer func() {
			if rec := recover(); rec != nil {
				switch x := rec.(type) {
				case unsupported:
					b.WriteString("\nreplay: not possible: " + x.msg + "\n")
				case goUnsup:
					b.WriteString("\nreplay: not possible: " + x.msg + "\n")
				default:
					b.WriteString(fmt.Sprintf("\nreplay: internal error: %v\n", rec))
				}
			}
		}()
		if f.fr.Fn == nil || f.fr.Contract == nil {
			b.WriteString("\nreplay: lemma over contracts, no code to run\n")
			return
		}
		if f.o.Cover {
			b.WriteString("\nreplay: vacuity guard, no input to run\n")
			return
		}
		b.WriteString("package: " + f.fr.Fn.Pkg.Pkg.Path() + "\n")
		rp := &replayer{rep: r, f: f, base: base, log: &b}
		rp.run()
	}()
	if f.input {
		b.WriteString("\nRESULT: failing input reproduced on the real code (run: ./check " + r.prop + " --replay " + f.replay + ")\n")
	} else {
		b.WriteString("\nRESULT: no-failing-input-found\n")
	}
	os.WriteFile(f.replay, []byte(b.String()), 0o644)
}

type replayer struct {
	rep     *Report
	f       *failure
	base    string
	log     *strings.Builder
	globals []*ssa.Global
	vc      *VC
}

// contractGlobals: written package variables of the function's package that
// the contract (including the spec functions it uses) mentions.
func (rp *replayer) contractGlobals() []*ssa.Global {
	fr := rp.f.fr
	fn, c := fr.Fn, fr.Contract
	eng := rp.rep.eng
	names := map[string]bool{}
	seen := map[string]bool{}
	var walk func(e CExpr)
	walk = func(e CExpr) {
		switch x := e.(type) {
		case *CIdent:
			names[x.Name] = true
		case *CUn:
			walk(x.X)
		case *CBin:
			walk(x.X)
			walk(x.Y)
		case *CCond:
			walk(x.C)
			walk(x.A)
			walk(x.B)
		case *CIndex:
			walk(x.X)
			walk(x.I)
		case *CSlice:
			walk(x.X)
			if x.Lo != nil {
				walk(x.Lo)
			}
			if x.Hi != nil {
				walk(x.Hi)
			}
		case *CSel:
			walk(x.X)
		case *CQuant:
			walk(x.Body)
		case *CCall:
			for _, a := range x.Args {
				walk(a)
			}
			if sf := eng.specFn(fn.Pkg.Pkg, x.F); sf != nil && !seen[x.F] {
				seen[x.F] = true
				walk(sf.Body)
			}
		}
	}
	for _, cl := range c.Requires {
		walk(cl.Expr)
	}
	for _, cl := range c.Ensures {
		walk(cl.Expr)
	}
	if c.PanicsIf != nil {
		walk(c.PanicsIf.Expr)
	}
	var out []*ssa.Global
	var ns []string
	for n := range names {
		ns = append(ns, n)
	}
	sort.Strings(ns)
	for _, n := range ns {
		if g, ok := fn.Pkg.Members[n].(*ssa.Global); ok && eng.storedGlobal(g) {
			out = append(out, g)
		}
	}
	return out
}

func (rp *replayer) run() {
	fr := rp.f.fr
	o := rp.f.o
	eng := rp.rep.eng
	fn := fr.Fn
	c := fr.Contract
	if fn.TypeParams().Len() > 0 || (fn.Origin() != nil && fn.Origin() != fn) {
		rp.log.WriteString("\nreplay: generic function, not replayed\n")
		return
	}
	vc := newVC(eng, fn, c)
	rp.vc = vc
	for g, id := range fr.GlobalIds {
		vc.globalIds[g] = id // same references for package variables as in the VC
	}
	for _, t := range fr.TagTypes {
		vc.typeTag(t) // same dynamic type tags as in the VC
	}
	declared := map[string]bool{}
	for _, cmd := range fr.Cmds[:o.Prefix] {
		if strings.HasPrefix(cmd, "(declare-fun ") {
			declared[strings.Fields(cmd)[1]] = true
		}
	}
	tries := 0
	// scopes: small first (5 elements per string/slice), then 12
	for _, scope := range []int{5, 12} {
		if rp.f.input {
			break
		}
		if time.Now().After(rp.rep.replayUntil) {
			rp.log.WriteString("\nreplay: time budget of this run for replays is used up; no further attempt\n")
			break
		}
		tries += rp.runScope(vc, declared, scope, tries)
	}
	if tries == 0 {
		rp.log.WriteString("\nreplay: the solvers produced no candidate input (exact model and small-scope search both failed)\n")
	}
}

func (rp *replayer) runScope(vc *VC, declared map[string]bool, scope int, base int) int {
	fr := rp.f.fr
	fn, c := fr.Fn, fr.Contract
	plan := &xplan{vc: vc, declared: declared, maxElems: scope}
	var roots []*xnode
	for i, p := range fn.Params {
		roots = append(roots, plan.build(p.Type(), fr.ParamConsts[i], 0))
	}
	sc := &specCtx{vc: vc, pkg: fn.Pkg.Pkg}
	var wnames []string
	for _, g := range c.Ghosts {
		_, t := sc.quantSort(g.Type)
		if t == nil || fr.Witness[g.Name] == "" {
			unsup("witness %s cannot be rendered", g.Name)
		}
		roots = append(roots, plan.build(t, fr.Witness[g.Name], 0))
		wnames = append(wnames, g.Name)
	}
	// package variables the contract talks about are part of the input state
	rp.globals = rp.contractGlobals()
	for _, g := range rp.globals {
		roots = append(roots, plan.buildAt(g.Type().(*types.Pointer).Elem(), vc.global(g).S, 0))
	}
	tries := 0
	var block []string
	for attempt := 0; attempt < 2 && !rp.f.input; attempt++ {
		bounded := attempt == 1
		for k := 0; k < 3 && !rp.f.input && time.Now().Before(rp.rep.replayUntil); k++ {
			vals, ok := rp.candidate(plan, bounded, block)
			if !ok {
				break
			}
			tries++
			for i, v := range vals {
				*plan.slots[i] = v
			}
			// block this candidate's scalar values for the next round
			var eqs []string
			for i, t := range plan.terms {
				if !strings.Contains(vals[i], "mk-ref") && len(vals[i]) < 40 {
					eqs = append(eqs, "(= "+t+" "+vals[i]+")")
				}
			}
			if len(eqs) > 0 {
				block = append(block, "(not (and "+strings.Join(eqs, " ")+"))")
			}
			rp.tryCandidate(roots, wnames, base+tries)
		}
	}
	return tries
}

// candidate asks a solver for values of the extraction terms.
func (rp *replayer) candidate(plan *xplan, bounded bool, block []string) ([]string, bool) {
	fr, o := rp.f.fr, rp.f.o
	var q strings.Builder
	tr := func(s string) string { return s }
	if bounded {
		tr = func(s string) string {
			var out []string
			for _, x := range parseSx(s) {
				if x.head() == "assert" && len(x.list) == 2 && strings.Contains(x.String(), "(at o i)") {
					continue // the axiom of at(); at is replaced by + below
				}
				if x.head() == "declare-fun" && len(x.list) > 1 && x.list[1].atom == "at" {
					continue
				}
				y := boundInst(x, 4, "true")
				out = append(out, strings.ReplaceAll(y.String(), "(at ", "(+ "))
			}
			return strings.Join(out, "\n")
		}
	}
	q.WriteString(tr(fr.Prelude) + "\n")
	for _, c := range fr.Cmds[:o.Prefix] {
		q.WriteString(tr(c) + "\n")
	}
	for _, f := range plan.facts {
		q.WriteString("(assert " + tr(f) + ")\n")
	}
	for _, bl := range block {
		q.WriteString("(assert " + tr(bl) + ")\n")
	}
	q.WriteString("(assert " + tr(o.Reach) + ")\n")
	q.WriteString(tr("(assert (not "+o.Goal+"))") + "\n")
	q.WriteString("(check-sat)\n")
	var terms []string
	for _, t := range plan.terms {
		terms = append(terms, tr(t))
	}
	q.WriteString("(get-value (" + strings.Join(terms, "\n ") + "))\n")
	file := rp.base + fmt.Sprintf(".cand%d.smt2", map[bool]int{false: 0, true: 1}[bounded])
	os.MkdirAll(filepath.Dir(file), 0o755)
	os.WriteFile(file, []byte(q.String()), 0o644)
	defer os.Remove(file)
	for _, s := range solvers[:2] {
		st, out, _ := runSolver(context.Background(), s, file, 15)
		if st != "sat" {
			continue
		}
		i := strings.Index(out, "(")
		if i < 0 {
			continue
		}
		top := parseSx(out[i:])
		if len(top) == 0 || top[0].list == nil {
			continue
		}
		pairs := top[0].list
		if len(pairs) != len(plan.terms) {
			continue
		}
		vals := make([]string, len(pairs))
		for k, p := range pairs {
			if len(p.list) != 2 {
				return nil, false
			}
			vals[k] = p.list[1].String()
		}
		mode := "exact query"
		if bounded {
			mode = "small-scope search (quantifiers instantiated over 0..3)"
		}
		rp.log.WriteString(fmt.Sprintf("\ncandidate input from %s via %s\n", s.name, mode))
		return vals, true
	}
	return nil, false
}

func mentions(e CExpr, names map[string]bool) bool {
	found := false
	var walk func(e CExpr)
	walk = func(e CExpr) {
		switch x := e.(type) {
		case *CIdent:
			if names[x.Name] {
				found = true
			}
		case *CUn:
			walk(x.X)
		case *CBin:
			walk(x.X)
			walk(x.Y)
		case *CCond:
			walk(x.C)
			walk(x.A)
			walk(x.B)
		case *CIndex:
			walk(x.X)
			walk(x.I)
		case *CSlice:
			walk(x.X)
			if x.Lo != nil {
				walk(x.Lo)
			}
			if x.Hi != nil {
				walk(x.Hi)
			}
		case *CSel:
			walk(x.X)
		case *CCall:
			for _, a := range x.Args {
				walk(a)
			}
		case *CQuant:
			walk(x.Body)
		}
	}
	walk(e)
	return found
}

func (rp *replayer) tryCandidate(roots []*xnode, wnames []string, n int) {
	fr := rp.f.fr
	fn, c := fr.Fn, fr.Contract
	eng := rp.rep.eng
	pkg := fn.Pkg.Pkg
	rend := &goRender{vc: rp.vc, pkg: pkg, imports: map[string]string{}, ptrVars: map[string]string{}}
	rend.rankAbs(roots)
	gg := &goGen{eng: eng, pkg: pkg, mode: fr.Mode, absStr: eng.cs.pragma(c.PkgPath, "strings") == "ordered",
		vars: map[string]goVal{}, oldVars: map[string]goVal{}, rend: rend}
	var body strings.Builder
	// parameter names as used by the contract
	sig := fn.Signature
	var pnames []string
	k := 0
	if sig.Recv() != nil {
		name := c.RecvName
		if name == "" {
			name = "recv"
		}
		pnames = append(pnames, name)
		k = 1
	}
	for i := 0; i+k < len(fn.Params); i++ {
		name := fmt.Sprintf("arg%d", i)
		if i < len(c.Params) {
			name = c.Params[i]
		}
		pnames = append(pnames, name)
	}
	var decl strings.Builder
	for i, p := range fn.Params {
		e := rend.expr(roots[i])
		decl.WriteString(fmt.Sprintf("\tvar %s %s = %s\n\t_ = %s\n", pnames[i], rend.typeStr(p.Type()), e, pnames[i]))
		gg.vars[pnames[i]] = goVal{code: pnames[i], t: p.Type()}
		// snapshot for old()
		on := "old_" + pnames[i]
		switch u := types.Unalias(p.Type()).Underlying().(type) {
		case *types.Pointer:
			el := rend.typeStr(u.Elem())
			decl.WriteString(fmt.Sprintf("\tvar %s %s\n\tif %s != nil {\n\t\t%s = new(%s)\n\t\t*%s = *%s\n", on, rend.typeStr(p.Type()), pnames[i], on, el, on, pnames[i]))
			if s, ok := structOf(u.Elem()); ok && !rend.foreignOpaque(u.Elem()) {
				for fi := 0; fi < s.NumFields(); fi++ {
					if _, isSl := s.Field(fi).Type().Underlying().(*types.Slice); isSl && s.Field(fi).Name() != "_" {
						fnm := s.Field(fi).Name()
						decl.WriteString(fmt.Sprintf("\t\t%s.%s = append(%s.%s[:0:0], %s.%s...)\n", on, fnm, pnames[i], fnm, pnames[i], fnm))
					}
				}
			}
			decl.WriteString("\t}\n\t_ = " + on + "\n")
		case *types.Slice:
			decl.WriteString(fmt.Sprintf("\t%s := append(%s[:0:0], %s...)\n\t_ = %s\n", on, pnames[i], pnames[i], on))
		default:
			decl.WriteString(fmt.Sprintf("\t%s := %s\n\t_ = %s\n", on, pnames[i], on))
		}
		gg.oldVars[pnames[i]] = goVal{code: on, t: p.Type()}
	}
	for i, wn := range wnames {
		node := roots[len(fn.Params)+i]
		decl.WriteString(fmt.Sprintf("\tvar %s %s = %s\n\t_ = %s\n", wn, rend.typeStr(node.t), rend.expr(node), wn))
		gg.vars[wn] = goVal{code: wn, t: node.t}
	}
	for i, g := range rp.globals {
		node := roots[len(fn.Params)+len(wnames)+i]
		gt := g.Type().(*types.Pointer).Elem()
		node.t = gt
		decl.WriteString(fmt.Sprintf("\t%s = %s\n\told_g_%s := %s\n\t_ = old_g_%s\n", g.Name(), rend.expr(node), g.Name(), g.Name(), g.Name()))
		gg.vars[g.Name()] = goVal{code: g.Name(), t: gt}
		gg.oldVars[g.Name()] = goVal{code: "old_g_" + g.Name(), t: gt}
	}
	if len(rend.problems) > 0 {
		rp.log.WriteString("candidate not renderable: " + strings.Join(rend.problems, "; ") + "\n")
		return
	}
	body.WriteString(strings.Join(prefixLines(rend.stmts, "\t"), "\n") + "\n")
	body.WriteString(decl.String())
	// preconditions
	body.WriteString("\tchk := func(name string, f func() bool) (ok bool) {\n\t\tdefer func() {\n\t\t\tif r := recover(); r != nil {\n\t\t\t\tt.Logf(\"REPLAY-NOTE: oracle %s not evaluable: %v\", name, r)\n\t\t\t\tok = true\n\t\t\t}\n\t\t}()\n\t\treturn f()\n\t}\n\t_ = chk\n")
	for i, rq := range c.Requires {
		code, _ := gg.clause(rq.Expr)
		body.WriteString(fmt.Sprintf("\tif !chk(\"requires %d\", func() bool { return %s }) {\n\t\tt.Log(\"REPLAY-SKIP: candidate input does not satisfy the precondition: %s\")\n\t\treturn\n\t}\n", i, code, escq(rq.Src)))
	}
	// type invariants of parameters
	for i, p := range fn.Params {
		if nt, ok := types.Unalias(p.Type()).(*types.Named); ok && nt.Obj().Pkg() != nil {
			if ti := eng.cs.TypeInvs[nt.Obj().Pkg().Path()+"#"+nt.Obj().Name()]; ti != nil {
				saved := gg.vars[ti.Self]
				gg.vars[ti.Self] = goVal{code: pnames[i], t: p.Type()}
				code, _ := gg.clause(ti.Clause.Expr)
				gg.vars[ti.Self] = saved
				body.WriteString(fmt.Sprintf("\tif !chk(\"type invariant\", func() bool { return %s }) {\n\t\tt.Log(\"REPLAY-SKIP: candidate input violates the type invariant of %s\")\n\t\treturn\n\t}\n", code, nt.Obj().Name()))
			}
		}
	}
	// results
	var rnames []string
	for i := 0; i < sig.Results().Len(); i++ {
		name := fmt.Sprintf("res%d", i)
		if i < len(c.Results) {
			name = c.Results[i]
		}
		rnames = append(rnames, name)
		body.WriteString(fmt.Sprintf("\tvar %s %s\n\t_ = %s\n", name, rend.typeStr(sig.Results().At(i).Type()), name))
		gg.vars[name] = goVal{code: name, t: sig.Results().At(i).Type()}
	}
	// the call
	var args []string
	for i := k; i < len(pnames); i++ {
		a := pnames[i]
		if sig.Variadic() && i == len(pnames)-1 {
			a += "..."
		}
		args = append(args, a)
	}
	call := fn.Name() + "(" + strings.Join(args, ", ") + ")"
	if k == 1 {
		call = pnames[0] + "." + call
	}
	if len(rnames) > 0 {
		call = strings.Join(rnames, ", ") + " = " + call
	}
	body.WriteString("\tvar panicked any\n\tfunc() {\n\t\tdefer func() { panicked = recover() }()\n\t\t" + call + "\n\t}()\n")
	expect := "false"
	if c.PanicsIf != nil {
		gg.inOld = true
		code, ok := gg.clause(c.PanicsIf.Expr)
		gg.inOld = false
		if ok {
			expect = code
		} else {
			expect = "panicked != nil"
		}
	}
	if c.EnsuresPanic {
		expect = "true"
	}
	body.WriteString("\texpectPanic := " + expect + "\n")
	if len(fr.Havoced) > 0 || c.MayPanic || c.NoSafety {
		// the function calls code outside the model (havoced): a panic may come
		// from the replay environment (no database, no network), not from the input;
		// or the contract allows panics / does not claim run-time safety: a panic
		// is not a violation of it
		body.WriteString("\tif panicked != nil && !expectPanic {\n\t\tt.Logf(\"REPLAY-NOTE: panic %v (the function calls code outside the model; inconclusive)\", panicked)\n\t\treturn\n\t}\n")
	} else {
		body.WriteString("\tif panicked != nil && !expectPanic {\n\t\tt.Fatalf(\"REPLAY-FAIL: the real code panics on this input: %v\", panicked)\n\t}\n")
	}
	body.WriteString("\tif panicked == nil && expectPanic {\n\t\tt.Fatalf(\"REPLAY-FAIL: the real code returns normally where the contract requires a panic\")\n\t}\n")
	body.WriteString("\tif panicked != nil {\n\t\tt.Log(\"REPLAY-PASS: panicked as the contract allows\")\n\t\treturn\n\t}\n")
	// postconditions
	gnames := map[string]bool{}
	for _, g := range c.GhostRes {
		gnames[g.Name] = true
	}
	var ghostClauses []string
	var ghostNames []string
	for _, en := range c.Ensures {
		if len(gnames) > 0 && mentions(en.Expr, gnames) {
			for _, g := range c.GhostRes {
				gg.vars[g.Name] = goVal{code: "gh_" + g.Name, t: intT}
			}
			code, ok := gg.clause(en.Expr)
			if ok {
				ghostClauses = append(ghostClauses, code)
				ghostNames = append(ghostNames, en.Name)
			}
			continue
		}
		code, ok := gg.clause(en.Expr)
		if !ok {
			body.WriteString("\t// postcondition " + en.Name + " is not executable\n")
			continue
		}
		body.WriteString(fmt.Sprintf("\tif !chk(\"ensures %s\", func() bool { return %s }) {\n\t\tt.Fatalf(\"REPLAY-FAIL: postcondition %s violated on the real code: %s\")\n\t}\n", en.Name, code, en.Name, escq(en.Src)))
	}
	if len(ghostClauses) > 0 {
		body.WriteString("\tghostOK := false\n")
		closeB := ""
		for _, g := range c.GhostRes {
			body.WriteString(fmt.Sprintf("\tfor gh_%s := -2; gh_%s <= 300 && !ghostOK; gh_%s++ {\n", g.Name, g.Name, g.Name))
			closeB += "\t}\n"
		}
		body.WriteString("\t\tif chk(\"ensures with ghost results\", func() bool { return " + strings.Join(ghostClauses, " && ") + " }) {\n\t\t\tghostOK = true\n\t\t}\n")
		body.WriteString(closeB)
		body.WriteString(fmt.Sprintf("\tif !ghostOK {\n\t\tt.Fatalf(\"REPLAY-FAIL: postconditions %s violated on the real code for every value of the ghost result\")\n\t}\n", strings.Join(ghostNames, ",")))
	}
	body.WriteString("\tt.Log(\"REPLAY-PASS: the real code satisfies the contract on this input\")\n")

	var src strings.Builder
	src.WriteString("package " + pkg.Name() + "\n\n// generated by govc: replay of obligation " + rp.f.o.Name + "\n\nimport (\n\t\"math/big\"\n\t\"testing\"\n")
	delete(rend.imports, "math/big")
	delete(rend.imports, "testing")
	var imps []string
	for p, nm := range rend.imports {
		imps = append(imps, fmt.Sprintf("\t%s %q\n", nm, p))
	}
	sort.Strings(imps)
	src.WriteString(strings.Join(imps, "") + ")\n\n")
	src.WriteString(goHelpers + "\n")
	src.WriteString("func TestGovcReplay(t *testing.T) {\n" + body.String() + "}\n")
	testFile := fmt.Sprintf("%s.replay%d_test.go.txt", rp.base, n)
	os.WriteFile(testFile, []byte(src.String()), 0o644)
	out, failed := runReplayTest(rp.rep.eng.repo, pkg.Path(), testFile)
	rp.log.WriteString(fmt.Sprintf("replay test %s:\n%s\n", testFile, indent(trunc(out, 3000))))
	if failed {
		rp.f.input = true
		rp.f.testFile = testFile
	}
}

func prefixLines(ls []string, p string) []string {
	var out []string
	for _, l := range ls {
		out = append(out, p+l)
	}
	return out
}

func escq(s string) string {
	s = strings.ReplaceAll(s, "\\", "\\\\")
	s = strings.ReplaceAll(s, "\"", "\\\"")
	return strings.ReplaceAll(s, "%", "%%")
}

func indent(s string) string { return "    " + strings.ReplaceAll(strings.TrimSpace(s), "\n", "\n    ") }

// overlay extras for packages that do not build their tests in the baseline
func overlayExtras(repo, pkgPath string, dir string) map[string]string {
	m := map[string]string{}
	rel := strings.TrimPrefix(pkgPath, modPath+"/")
	switch rel {
	case "core":
		for _, f := range []string{"closure_test.go", "execute_test.go", "suclasschain_test.go", "timestamp_test.go"} {
			m[filepath.Join(repo, "core", f)] = ""
		}
	}
	// dbms embeds server.crt/server.key which are not in the repository
	needCert := rel == "dbms" || rel == "core" || rel == "builtin" || rel == "dbms/mux" || strings.HasPrefix(rel, "dbms")
	if needCert {
		for _, f := range []string{"server.crt", "server.key"} {
			if _, err := os.Stat(filepath.Join(repo, "dbms", f)); err != nil {
				p := filepath.Join(dir, "dummy_"+f)
				os.WriteFile(p, []byte("dummy\n"), 0o644)
				m[filepath.Join(repo, "dbms", f)] = p
			}
		}
	}
	return m
}

// runReplayTest runs one generated test in its package through an overlay.
func runReplayTest(repo, pkgPath, testFile string) (string, bool) {
	rel := strings.TrimPrefix(pkgPath, modPath)
	rel = strings.TrimPrefix(rel, "/")
	dir := filepath.Join(repo, rel)
	ov := map[string]map[string]string{"Replace": overlayExtras(repo, pkgPath, filepath.Dir(testFile))}
	ov["Replace"][filepath.Join(dir, "zz_govc_replay_test.go")] = testFile
	data, _ := json.Marshal(ov)
	ovFile := testFile + ".overlay.json"
	os.WriteFile(ovFile, data, 0o644)
	defer os.Remove(ovFile)
	ctx, cancel := context.WithTimeout(context.Background(), 180*time.Second)
	defer cancel()
	cmd := exec.CommandContext(ctx, "go", "test", "-overlay", ovFile, "-vet=off", "-count=1", "-timeout", "60s", "-run", "^TestGovcReplay$", "-v", "./"+rel)
	cmd.Dir = repo
	cmd.Env = append(os.Environ(), "GOFLAGS=-mod=mod", "GOPROXY=off")
	out, _ := cmd.CombinedOutput()
	s := string(out)
	return s, strings.Contains(s, "REPLAY-FAIL")
}

func cmdReplay(args []string) int {
	var prop, file string
	for i := 0; i+1 < len(args); i += 2 {
		switch args[i] {
		case "-prop":
			prop = args[i+1]
		case "-file":
			file = args[i+1]
		}
	}
	data, err := os.ReadFile(file)
	if err != nil {
		fmt.Println("HARNESS-ERROR cannot read", file)
		return 2
	}
	// find the generated test recorded in the replay file
	var testFile, pkgPath string
	for _, ln := range strings.Split(string(data), "\n") {
		if strings.HasPrefix(ln, "replay test ") {
			testFile = strings.TrimSuffix(strings.TrimPrefix(ln, "replay test "), ":")
		}
		if strings.HasPrefix(ln, "package: ") {
			pkgPath = strings.TrimPrefix(ln, "package: ")
		}
	}
	if testFile == "" || pkgPath == "" {
		fmt.Printf("no runnable test recorded in %s (no-failing-input-found)\n%s\n", file, string(data))
		return 0
	}
	out, failed := runReplayTest("/repo", pkgPath, testFile)
	fmt.Println(out)
	if failed {
		fmt.Printf("VIOLATION property=%s replay=%s\n", prop, file)
		return 1
	}
	return 0
}
