package main

import (
	"fmt"
	"strings"
)

// Goal-directed instantiation. An obligation whose goal is (forall x. B) is
// checked as B[x := sk] for a fresh constant sk (the same query: the negated
// goal is an existential). The quantified facts that were assumed on the way
// (loop invariants, callee post-conditions, frame conditions of "defines"
// clauses) are then ALSO given instantiated at sk: for a fact F in which a
// one-variable (forall y. C) occurs positively, F with that subterm replaced by
// C[y := sk] is a consequence of F, so adding it cannot make an unprovable goal
// provable. It saves the solvers the search for the instance, which without
// patterns regularly timed out on facts that are each trivial by themselves.

type skolem struct{ name, sort string }

// skolemizeGoal: strips leading universal quantifiers (below implications) of
// the goal. Returns the new goal and the constants introduced.
func skolemizeGoal(goal string, id int) (string, []skolem) {
	if !strings.Contains(goal, "(forall ") {
		return goal, nil
	}
	xs := parseSx(goal)
	if len(xs) != 1 {
		return goal, nil
	}
	var sks []skolem
	var strip func(x *sx) *sx
	strip = func(x *sx) *sx {
		switch x.head() {
		case "=>":
			if len(x.list) == 3 {
				return &sx{list: []*sx{x.list[0], x.list[1], strip(x.list[2])}}
			}
		case "forall":
			if len(x.list) == 3 && x.list[2].head() != "!" {
				env := map[string]*sx{}
				for _, b := range x.list[1].list {
					if len(b.list) != 2 {
						return x
					}
					sk := skolem{fmt.Sprintf("sk!%d!%d", id, len(sks)), b.list[1].String()}
					sks = append(sks, sk)
					env[b.list[0].atom] = atomSx(sk.name)
				}
				return strip(subst(x.list[2], env))
			}
		}
		return x
	}
	g := strip(xs[0])
	if len(sks) == 0 {
		return goal, nil
	}
	return g.String(), sks
}

// instantiateAt: the assert command with every positively occurring
// one-variable quantifier of a matching sort replaced by its instances at the
// given constants; "" when there is none.
func instantiateAt(cmd string, sks []skolem) string {
	if !strings.HasPrefix(cmd, "(assert ") || !strings.Contains(cmd, "(forall ((") {
		return ""
	}
	xs := parseSx(cmd)
	if len(xs) != 1 || len(xs[0].list) != 2 {
		return ""
	}
	found := false
	var pos func(x *sx) *sx
	pos = func(x *sx) *sx {
		switch x.head() {
		case "and", "or":
			n := &sx{list: make([]*sx, len(x.list))}
			n.list[0] = x.list[0]
			for i := 1; i < len(x.list); i++ {
				n.list[i] = pos(x.list[i])
			}
			return n
		case "=>":
			if len(x.list) == 3 {
				return &sx{list: []*sx{x.list[0], x.list[1], pos(x.list[2])}}
			}
		case "forall":
			if len(x.list) == 3 && len(x.list[1].list) == 1 && x.list[2].head() != "!" {
				b := x.list[1].list[0]
				if len(b.list) != 2 {
					return x
				}
				sort := b.list[1].String()
				var insts []*sx
				for _, sk := range sks {
					if sk.sort == sort {
						insts = append(insts, subst(x.list[2], map[string]*sx{b.list[0].atom: atomSx(sk.name)}))
					}
				}
				if len(insts) == 0 {
					return x
				}
				found = true
				if len(insts) == 1 {
					return insts[0]
				}
				return &sx{list: append([]*sx{atomSx("and")}, insts...)}
			}
		}
		return x
	}
	body := pos(xs[0].list[1])
	if !found {
		return ""
	}
	return "(assert " + body.String() + ")"
}
