package main

import (
	"fmt"
	"strings"
)

// Goal-directed instantiation. An obligation whose goal is (forall x. B) is
// checked as B[x := sk] for a fresh constant sk (the same query: the negated
// goal is an existential). The quantified facts that were assumed on the way
// (loop invariants, callee post-conditions, frame conditions of "defines"
// clauses) are then ALSO given instantiated at sk: for a fact F in which a
// one-variable (forall y. C) occurs positively, F with that subterm replaced by
// C[y := sk] is a consequence of F, so adding it cannot make an unprovable goal
// provable. It saves the solvers the search for the instance, which without
// patterns regularly timed out on facts that are each trivial by themselves.

type skolem struct{ name, sort string }

// skolemizeGoal: strips leading universal quantifiers (below implications) of
// the goal. Returns the new goal and the constants introduced.
func skolemizeGoal(goal string, id int) (string, []skolem) {
	if !strings.Contains(goal, "(forall ") {
		return goal, nil
	}
	xs := parseSx(goal)
	if len(xs) != 1 {
		return goal, nil
	}
	var sks []skolem
	var strip func(x *sx) *sx
	strip = func(x *sx) *sx {
		switch x.head() {
		case "=>":
			if len(x.list) == 3 {
				return &sx{list: []*sx{x.list[0], x.list[1], strip(x.list[2])}}
			}
		case "forall":
			if len(x.list) == 3 && x.list[2].head() != "!" {
				env := map[string]*sx{}
				for _, b := range x.list[1].list {
					if len(b.list) != 2 {
						return x
					}
					sk := skolem{fmt.Sprintf("sk!%d!%d", id, len(sks)), b.list[1].String()}
					sks = append(sks, sk)
					env[b.list[0].atom] = atomSx(sk.name)
				}
				return strip(subst(x.list[2], env))
			}
		}
		return x
	}
	g := strip(xs[0])
	if len(sks) == 0 {
		return goal, nil
	}
	return g.String(), sks
}

// goalIndexTerms: the index terms at which the goal reads array elements
// (select (select HA_x ref) idx), idx = off + k: k). A goal that is not itself
// quantified usually needs the assumed quantified facts at exactly these.
func goalIndexTerms(goal string, sort string) []skolem {
	if !strings.Contains(goal, "(select (select HA_") {
		return nil
	}
	xs := parseSx(goal)
	if len(xs) != 1 {
		return nil
	}
	seen := map[string]bool{}
	var out []skolem
	var walk func(x *sx, bound map[string]bool)
	walk = func(x *sx, bound map[string]bool) {
		if x.list == nil {
			return
		}
		if h := x.head(); (h == "forall" || h == "exists") && len(x.list) == 3 {
			nb := map[string]bool{}
			for k := range bound {
				nb[k] = true
			}
			for _, b := range x.list[1].list {
				if len(b.list) == 2 {
					nb[b.list[0].atom] = true
				}
			}
			walk(x.list[2], nb)
			return
		}
		if x.head() == "select" && len(x.list) == 3 && x.list[1].head() == "select" &&
			len(x.list[1].list) == 3 && strings.HasPrefix(x.list[1].list[1].atom, "HA_") {
			k := x.list[2]
			switch k.head() {
			case "bvadd", "at", "+":
				if len(k.list) == 3 {
					k = k.list[2]
				}
			}
			s := k.String()
			if !seen[s] && len(out) < 4 && !mentionsBound(k, bound) {
				seen[s] = true
				out = append(out, skolem{s, sort})
			}
		}
		for _, e := range x.list {
			walk(e, bound)
		}
	}
	walk(xs[0], map[string]bool{})
	return out
}

func mentionsBound(x *sx, bound map[string]bool) bool {
	if x.list == nil {
		return bound[x.atom]
	}
	for _, e := range x.list {
		if mentionsBound(e, bound) {
			return true
		}
	}
	return false
}

// instantiateAt: the assert command with every positively occurring
// one-variable quantifier of a matching sort replaced by its instances at the
// given constants; "" when there is none.
func instantiateAt(cmd string, sks []skolem) string {
	if !strings.HasPrefix(cmd, "(assert ") || !strings.Contains(cmd, "(forall ((") {
		return ""
	}
	xs := parseSx(cmd)
	if len(xs) != 1 || len(xs[0].list) != 2 {
		return ""
	}
	found := false
	var pos func(x *sx) *sx
	pos = func(x *sx) *sx {
		switch x.head() {
		case "and", "or":
			n := &sx{list: make([]*sx, len(x.list))}
			n.list[0] = x.list[0]
			for i := 1; i < len(x.list); i++ {
				n.list[i] = pos(x.list[i])
			}
			return n
		case "=>":
			if len(x.list) == 3 {
				return &sx{list: []*sx{x.list[0], x.list[1], pos(x.list[2])}}
			}
		case "forall":
			if len(x.list) == 3 && len(x.list[1].list) == 1 {
				b := x.list[1].list[0]
				if len(b.list) != 2 {
					return x
				}
				body := x.list[2]
				if body.head() == "!" && len(body.list) >= 2 {
					body = body.list[1] // (! B :pattern ...): the pattern is only a hint
				}
				sort := b.list[1].String()
				var insts []*sx
				for _, sk := range sks {
					if sk.sort == sort {
						insts = append(insts, subst(body, map[string]*sx{b.list[0].atom: atomSx(sk.name)}))
					}
				}
				if len(insts) == 0 {
					return x
				}
				found = true
				if len(insts) == 1 {
					return insts[0]
				}
				return &sx{list: append([]*sx{atomSx("and")}, insts...)}
			}
		}
		return x
	}
	body := pos(xs[0].list[1])
	if !found {
		return ""
	}
	return "(assert " + body.String() + ")"
}
