package main

// Evaluation of contract expressions to SMT terms in a given program state.

import (
	"fmt"
	"go/constant"
	"go/types"
	"math/big"
	"strings"

	"golang.org/x/tools/go/ssa"
)

type specCtx struct {
	vc     *VC
	st     *State // current state (post state for ensures)
	old    *State // pre state
	vars   map[string]Val
	locals map[string]Val
	bound  map[string]*Term
	pkg    *types.Package
	fn     *ssa.Function
	depth  int
	lemma  bool
}

const litSort = "lit"

func (sc *specCtx) child() *specCtx {
	n := *sc
	n.vars = map[string]Val{}
	n.locals = nil
	n.bound = map[string]*Term{}
	for k, v := range sc.bound {
		n.bound[k] = v
	}
	n.depth++
	if n.depth > 30 {
		unsup("spec function recursion too deep")
	}
	return &n
}

func (sc *specCtx) evalBool(e CExpr) string {
	t := sc.evalTerm(e)
	if t.Sort != SBool {
		unsup("spec: boolean expected: %s", e)
	}
	return t.S
}

func (sc *specCtx) evalTerm(e CExpr) *Term {
	v := sc.eval(e)
	t, ok := v.(*Term)
	if !ok {
		unsup("spec: %s does not denote a value (%T)", e, v)
	}
	return t
}

func (sc *specCtx) lit(n *big.Int) *Term { return &Term{n.String(), litSort, nil} }

// coerce brings literal operands to the sort of the other operand.
func (sc *specCtx) coerce(a, b *Term) (*Term, *Term) {
	vc := sc.vc
	fix := func(l *Term, o *Term) *Term {
		n, _ := new(big.Int).SetString(l.S, 10)
		if o.Sort == litSort || vc.mode != "bv" {
			return &Term{smtInt(n), "Int", l.T}
		}
		if strings.HasPrefix(o.Sort, "(_ BitVec") {
			return &Term{vc.bigLit(n, bvBits(o.Sort)), o.Sort, o.T}
		}
		return &Term{smtInt(n), "Int", l.T}
	}
	if a.Sort == litSort && b.Sort == litSort {
		if vc.mode == "bv" {
			na, _ := new(big.Int).SetString(a.S, 10)
			nb, _ := new(big.Int).SetString(b.S, 10)
			return &Term{vc.bigLit(na, 64), vc.intSort(64), nil}, &Term{vc.bigLit(nb, 64), vc.intSort(64), nil}
		}
		return fix(a, b), fix(b, a)
	}
	if a.Sort == litSort {
		return fix(a, b), b
	}
	if b.Sort == litSort {
		return a, fix(b, a)
	}
	// bv width mismatch: extend the narrower
	if vc.mode == "bv" && a.Sort != b.Sort && strings.HasPrefix(a.Sort, "(_ BitVec") && strings.HasPrefix(b.Sort, "(_ BitVec") {
		wa, wb := bvBits(a.Sort), bvBits(b.Sort)
		ext := func(t *Term, from, to int) *Term {
			signed := false
			if t.T != nil && isIntType(t.T) {
				_, signed = intInfo(t.T)
			}
			op := "zero_extend"
			if signed {
				op = "sign_extend"
			}
			return &Term{fmt.Sprintf("((_ %s %d) %s)", op, to-from, t.S), fmt.Sprintf("(_ BitVec %d)", to), nil}
		}
		if wa < wb {
			return ext(a, wa, wb), b
		}
		return a, ext(b, wb, wa)
	}
	return a, b
}

func (sc *specCtx) solo(a *Term) *Term {
	if a.Sort == litSort {
		n, _ := new(big.Int).SetString(a.S, 10)
		if sc.vc.mode == "bv" {
			return &Term{sc.vc.bigLit(n, 64), sc.vc.intSort(64), nil}
		}
		return &Term{smtInt(n), "Int", nil}
	}
	return a
}

func signedOf(a, b *Term) bool {
	for _, t := range []*Term{a, b} {
		if t.T != nil && isIntType(t.T) {
			_, s := intInfo(t.T)
			return s
		}
	}
	return true
}

func (sc *specCtx) eval(e CExpr) Val {
	vc := sc.vc
	switch e := e.(type) {
	case *CInt:
		n, _ := new(big.Int).SetString(e.V, 10)
		return sc.lit(n)
	case *CBool:
		if e.V {
			return &Term{"true", SBool, nil}
		}
		return &Term{"false", SBool, nil}
	case *CStr:
		return vc.strLit(e.V, types.Typ[types.String])
	case *CIdent:
		return sc.ident(e.Name)
	case *CUn:
		x := sc.evalTerm(e.X)
		switch e.Op {
		case "!":
			return &Term{not(x.S), SBool, nil}
		case "-":
			if x.Sort == litSort {
				n, _ := new(big.Int).SetString(x.S, 10)
				return sc.lit(n.Neg(n))
			}
			if vc.mode == "bv" {
				return &Term{"(bvneg " + x.S + ")", x.Sort, x.T}
			}
			return &Term{"(- " + x.S + ")", "Int", x.T}
		case "^":
			x = sc.solo(x)
			if vc.mode == "bv" {
				return &Term{"(bvnot " + x.S + ")", x.Sort, x.T}
			}
			return &Term{"(- (- " + x.S + ") 1)", "Int", x.T}
		}
	case *CBin:
		return sc.binary(e)
	case *CCond:
		c := sc.evalBool(e.C)
		a, b := sc.coerce(sc.evalTerm(e.A), sc.evalTerm(e.B))
		if a.Sort != b.Sort {
			unsup("spec: branches of ?: have different sorts: %s", e)
		}
		return &Term{ite(c, a.S, b.S), a.Sort, a.T}
	case *CQuant:
		return sc.quant(e)
	case *CIndex:
		return sc.index(sc.evalTerm(e.X), sc.evalTerm(e.I))
	case *CSlice:
		return sc.slice(e)
	case *CSel:
		// package-qualified identifier?
		if id, ok := e.X.(*CIdent); ok {
			if _, isVar := sc.lookupVar(id.Name); !isVar {
				if p := sc.importedPkg(id.Name); p != nil {
					return sc.pkgObject(p, e.F)
				}
			}
		}
		return sc.field(sc.eval(e.X), e.F)
	case *CCall:
		return sc.call(e)
	}
	unsup("spec: cannot evaluate %s", e)
	return nil
}

func (sc *specCtx) lookupVar(name string) (Val, bool) {
	if t, ok := sc.bound[name]; ok {
		return t, true
	}
	if v, ok := sc.vars[name]; ok {
		return v, true
	}
	if sc.locals != nil {
		if v, ok := sc.locals[name]; ok {
			return v, true
		}
		if v, ok := sc.locals["&"+name]; ok {
			return sc.vc.load(sc.st, v, 0), true
		}
	}
	return nil, false
}

func (sc *specCtx) importedPkg(name string) *types.Package {
	if sc.pkg == nil {
		return nil
	}
	for _, p := range sc.pkg.Imports() {
		if p.Name() == name {
			return p
		}
	}
	return nil
}

func (sc *specCtx) ident(name string) Val {
	if v, ok := sc.lookupVar(name); ok {
		return v
	}
	if name == "nil" {
		return &Term{"nil", SRef, nil}
	}
	if sc.pkg != nil {
		if v := sc.pkgObjectOpt(sc.pkg, name); v != nil {
			return v
		}
	}
	if hv, s, t := sc.vc.ghostHV(sc.pkg, name); hv != "" {
		return &Term{"(select " + sc.vc.heapGet(sc.st, hv) + " nil)", s, t}
	}
	unsup("spec: unknown identifier %q", name)
	return nil
}

func (sc *specCtx) pkgObject(p *types.Package, name string) Val {
	if v := sc.pkgObjectOpt(p, name); v != nil {
		return v
	}
	unsup("spec: %s.%s not found", p.Name(), name)
	return nil
}

func (sc *specCtx) pkgObjectOpt(p *types.Package, name string) Val {
	obj := p.Scope().Lookup(name)
	switch o := obj.(type) {
	case *types.Const:
		if isIntType(o.Type()) && o.Val().Kind() == constant.Int {
			if b, ok := o.Type().Underlying().(*types.Basic); ok && b.Info()&types.IsUntyped != 0 {
				n, _ := new(big.Int).SetString(o.Val().ExactString(), 10)
				return sc.lit(n)
			}
		}
		return sc.vc.constTerm(o.Val(), o.Type())
	case *types.Var:
		sp := sc.vc.eng.prog.Package(p)
		if sp == nil {
			return nil
		}
		g, ok := sp.Members[name].(*ssa.Global)
		if !ok {
			return nil
		}
		if cv := sc.vc.constGlobal(g); cv != nil {
			return cv
		}
		return sc.vc.loadRef(sc.st, sc.vc.global(g).S, o.Type())
	}
	return nil
}

func (sc *specCtx) binary(e *CBin) Val {
	vc := sc.vc
	switch e.Op {
	case "&&":
		return &Term{and(sc.evalBool(e.X), sc.evalBool(e.Y)), SBool, nil}
	case "||":
		return &Term{or(sc.evalBool(e.X), sc.evalBool(e.Y)), SBool, nil}
	case "==>":
		return &Term{implies(sc.evalBool(e.X), sc.evalBool(e.Y)), SBool, nil}
	case "<==>":
		return &Term{"(= " + sc.evalBool(e.X) + " " + sc.evalBool(e.Y) + ")", SBool, nil}
	}
	if e.Op == "==" || e.Op == "!=" {
		// an interior pointer (&s[i]) is never nil
		xv, yv := sc.eval(e.X), sc.eval(e.Y)
		_, xl := xv.(*Loc)
		_, yl := yv.(*Loc)
		if xl || yl {
			other := yv
			if yl {
				other = xv
			}
			if t, ok := other.(*Term); ok && t.S == "nil" {
				if e.Op == "!=" {
					return &Term{"true", SBool, nil}
				}
				return &Term{"false", SBool, nil}
			}
			unsup("spec: comparison of interior pointers")
		}
	}
	x, y := sc.coerce(sc.evalTerm(e.X), sc.evalTerm(e.Y))
	isStr := (x.T != nil && isStringType(x.T)) || (y.T != nil && isStringType(y.T)) || x.Sort == SStr
	signed := signedOf(x, y)
	switch e.Op {
	case "==", "!=":
		var eq string
		if x.Sort == SStr {
			vc.needStrFuns()
			eq = "(streq " + x.S + " " + y.S + ")"
		} else {
			switch {
			case x.Sort == SSlice && y.S == "nil":
				eq = "(= (s-ref " + x.S + ") nil)"
			case y.Sort == SSlice && x.S == "nil":
				eq = "(= (s-ref " + y.S + ") nil)"
			case x.Sort == SIface && y.S == "nil":
				eq = "(= (i-tag " + x.S + ") 0)"
			case y.Sort == SIface && x.S == "nil":
				eq = "(= (i-tag " + y.S + ") 0)"
			case x.Sort == SIface && y.Sort != SIface && y.T != nil:
				// interface value against a value of a concrete type: box it
				box, _ := vc.boxFns(y.T)
				eq = fmt.Sprintf("(and (= (i-tag %s) %d) (= (i-val %s) (%s %s)))", x.S, vc.typeTag(y.T), x.S, box, y.S)
			case y.Sort == SIface && x.Sort != SIface && x.T != nil:
				box, _ := vc.boxFns(x.T)
				eq = fmt.Sprintf("(and (= (i-tag %s) %d) (= (i-val %s) (%s %s)))", y.S, vc.typeTag(x.T), y.S, box, x.S)
			case x.Sort != y.Sort:
				unsup("spec: comparing different sorts %s and %s in %s", x.Sort, y.Sort, e)
			default:
				eq = "(= " + x.S + " " + y.S + ")"
			}
		}
		if e.Op == "!=" {
			eq = not(eq)
		}
		return &Term{eq, SBool, nil}
	case "<", "<=", ">", ">=":
		if isStr && !vc.absStr {
			vc.needStrFuns()
			switch e.Op {
			case "<":
				return &Term{"(strlt " + x.S + " " + y.S + ")", SBool, nil}
			case ">":
				return &Term{"(strlt " + y.S + " " + x.S + ")", SBool, nil}
			case "<=":
				return &Term{"(not (strlt " + y.S + " " + x.S + "))", SBool, nil}
			}
			return &Term{"(not (strlt " + x.S + " " + y.S + "))", SBool, nil}
		}
		if isStr {
			signed = true
		}
		switch e.Op {
		case "<":
			return &Term{vc.lt(x.S, y.S, signed), SBool, nil}
		case "<=":
			return &Term{vc.le(x.S, y.S, signed), SBool, nil}
		case ">":
			return &Term{vc.lt(y.S, x.S, signed), SBool, nil}
		}
		return &Term{vc.le(y.S, x.S, signed), SBool, nil}
	}
	rt := x.T
	if rt == nil {
		rt = y.T
	}
	if vc.mode == "bv" && strings.HasPrefix(x.Sort, "(_ BitVec") {
		ops := map[string]string{"+": "bvadd", "-": "bvsub", "*": "bvmul", "&": "bvand", "|": "bvor", "^": "bvxor", "<<": "bvshl"}
		if o, ok := ops[e.Op]; ok {
			return &Term{"(" + o + " " + x.S + " " + y.S + ")", x.Sort, rt}
		}
		switch e.Op {
		case "/":
			if signed {
				return &Term{"(bvsdiv " + x.S + " " + y.S + ")", x.Sort, rt}
			}
			return &Term{"(bvudiv " + x.S + " " + y.S + ")", x.Sort, rt}
		case "%":
			if signed {
				return &Term{"(bvsrem " + x.S + " " + y.S + ")", x.Sort, rt}
			}
			return &Term{"(bvurem " + x.S + " " + y.S + ")", x.Sort, rt}
		case ">>":
			if signed {
				return &Term{"(bvashr " + x.S + " " + y.S + ")", x.Sort, rt}
			}
			return &Term{"(bvlshr " + x.S + " " + y.S + ")", x.Sort, rt}
		case "&^":
			return &Term{"(bvand " + x.S + " (bvnot " + y.S + "))", x.Sort, rt}
		}
	}
	switch e.Op {
	case "+":
		return &Term{"(+ " + x.S + " " + y.S + ")", "Int", rt}
	case "-":
		return &Term{"(- " + x.S + " " + y.S + ")", "Int", rt}
	case "*":
		return &Term{"(* " + x.S + " " + y.S + ")", "Int", rt}
	case "/":
		return &Term{"(tdiv " + x.S + " " + y.S + ")", "Int", rt}
	case "%":
		return &Term{"(tmod " + x.S + " " + y.S + ")", "Int", rt}
	case "<<":
		if n, ok := vc.litVal(y.S); ok {
			return &Term{"(* " + x.S + " " + pow2big(int(n.Int64())).String() + ")", "Int", rt}
		}
		return &Term{"(* " + x.S + " (pow2 " + y.S + "))", "Int", rt}
	case ">>":
		if n, ok := vc.litVal(y.S); ok {
			return &Term{"(div " + x.S + " " + pow2big(int(n.Int64())).String() + ")", "Int", rt}
		}
		return &Term{"(div " + x.S + " (pow2 " + y.S + "))", "Int", rt}
	case "&", "|", "^":
		return sc.intBitOp(e.Op, x, y, rt)
	}
	unsup("spec: operator %s", e.Op)
	return nil
}

func (sc *specCtx) quantSort(ty string) (string, types.Type) {
	vc := sc.vc
	switch ty {
	case "", "int":
		return vc.idxSort(), types.Typ[types.Int]
	case "Int":
		return "Int", nil
	case "byte", "uint8":
		return vc.intSort(8), types.Typ[types.Uint8]
	case "uint64":
		return vc.intSort(64), types.Typ[types.Uint64]
	case "uint32":
		return vc.intSort(32), types.Typ[types.Uint32]
	case "int64":
		return vc.intSort(64), types.Typ[types.Int64]
	case "uint16":
		return vc.intSort(16), types.Typ[types.Uint16]
	case "int16":
		return vc.intSort(16), types.Typ[types.Int16]
	case "int8":
		return vc.intSort(8), types.Typ[types.Int8]
	case "int32":
		return vc.intSort(32), types.Typ[types.Int32]
	case "uint":
		return vc.intSort(64), types.Typ[types.Uint]
	case "bool":
		return SBool, types.Typ[types.Bool]
	case "string":
		return vc.sortOf(types.Typ[types.String]), types.Typ[types.String]
	case "Ref":
		return SRef, nil
	case "[]byte":
		return SSlice, types.NewSlice(types.Typ[types.Uint8])
	}
	t := sc.namedType(ty)
	if t == nil {
		unsup("spec: unknown type %q", ty)
	}
	return vc.sortOf(t), t
}

// namedType resolves "T", "*T", "pkg.T", "[]T" in the context package.
func (sc *specCtx) namedType(ty string) types.Type {
	if strings.HasPrefix(ty, "*") {
		if t := sc.namedType(ty[1:]); t != nil {
			return types.NewPointer(t)
		}
		return nil
	}
	if strings.HasPrefix(ty, "[]") {
		if t := sc.namedType(ty[2:]); t != nil {
			return types.NewSlice(t)
		}
		return nil
	}
	switch ty {
	case "int", "byte", "uint8", "uint64", "uint32", "int64", "uint16", "int16", "int8", "int32", "uint", "bool", "string":
		_, t := sc.quantSort(ty)
		return t
	}
	p := sc.pkg
	if i := strings.Index(ty, "."); i >= 0 {
		p = sc.importedPkg(ty[:i])
		ty = ty[i+1:]
	}
	if p == nil {
		return nil
	}
	if tn, ok := p.Scope().Lookup(ty).(*types.TypeName); ok {
		return tn.Type()
	}
	return nil
}

func (sc *specCtx) quant(e *CQuant) Val {
	n := *sc
	n.bound = map[string]*Term{}
	for k, v := range sc.bound {
		n.bound[k] = v
	}
	var decls []string
	var guards []string
	for _, v := range e.Vars {
		s, t := sc.quantSort(v.Type)
		name := fmt.Sprintf("%s?%d", v.Name, sc.vc.nextQ())
		n.bound[v.Name] = &Term{name, s, t}
		decls = append(decls, "("+name+" "+s+")")
		if t != nil && v.Type != "" && v.Type != "int" {
			if g := sc.vc.typingFact(&Term{name, s, t}); g != "true" {
				guards = append(guards, g)
			}
		}
	}
	body := n.evalBool(e.Body)
	q := "exists"
	if e.Forall {
		q = "forall"
		if len(guards) > 0 {
			body = implies(and(guards...), body)
		}
	} else if len(guards) > 0 {
		body = and(append(guards, body)...)
	}
	return &Term{"(" + q + " (" + strings.Join(decls, " ") + ") " + body + ")", SBool, nil}
}

func (vc *VC) nextQ() int { vc.nfresh++; return vc.nfresh }

func (sc *specCtx) index(x, i *Term) Val {
	vc := sc.vc
	i = sc.solo(i)
	ii := i.S
	if i.T != nil && isIntType(i.T) {
		ii = vc.toIdx(i)
	}
	if x.T != nil {
		switch u := types.Unalias(x.T).Underlying().(type) {
		case *types.Slice:
			arr := "(select " + vc.heapGet(sc.st, vc.arrHV(u.Elem())) + " (s-ref " + x.S + "))"
			return &Term{"(select " + arr + " " + vc.at("(s-off "+x.S+")", ii) + ")", vc.sortOf(u.Elem()), u.Elem()}
		case *types.Array:
			return &Term{"(select " + x.S + " " + ii + ")", vc.sortOf(u.Elem()), u.Elem()}
		case *types.Pointer:
			if a, ok := arrayOf(u.Elem()); ok {
				arr := "(select " + vc.heapGet(sc.st, vc.arrHV(a.Elem())) + " " + x.S + ")"
				return &Term{"(select " + arr + " " + ii + ")", vc.sortOf(a.Elem()), a.Elem()}
			}
		case *types.Basic:
			if u.Info()&types.IsString != 0 && !vc.absStr {
				return &Term{"(select (str-arr " + x.S + ") " + vc.at("(str-off "+x.S+")", ii) + ")", vc.intSort(8), types.Typ[types.Uint8]}
			}
		case *types.Map:
			return vc.mapLookup(sc.st, x, x.T, i, false)
		}
	}
	if x.Sort == SStr {
		return &Term{"(select (str-arr " + x.S + ") " + vc.at("(str-off "+x.S+")", ii) + ")", vc.intSort(8), types.Typ[types.Uint8]}
	}
	if strings.HasPrefix(x.Sort, "(Array ") {
		return &Term{"(select " + x.S + " " + ii + ")", arrayElemSort(x.Sort), nil}
	}
	unsup("spec: cannot index %s (sort %s)", x.S, x.Sort)
	return nil
}

func arrayElemSort(s string) string {
	// "(Array I E)" -> E ; I has no nested spaces except "(_ BitVec n)"
	in := s[len("(Array ") : len(s)-1]
	d := 0
	for k, c := range in {
		switch c {
		case '(':
			d++
		case ')':
			d--
		case ' ':
			if d == 0 {
				return in[k+1:]
			}
		}
	}
	return in
}

func (sc *specCtx) slice(e *CSlice) Val {
	vc := sc.vc
	x := sc.evalTerm(e.X)
	z := vc.intLit(0, 64)
	lo := z
	if e.Lo != nil {
		lo = sc.solo(sc.evalTerm(e.Lo)).S
	}
	switch x.Sort {
	case SSlice:
		hi := "(s-len " + x.S + ")"
		if e.Hi != nil {
			hi = sc.solo(sc.evalTerm(e.Hi)).S
		}
		return &Term{"(mk-slice (s-ref " + x.S + ") " + vc.add("(s-off "+x.S+")", lo) + " " + vc.sub(hi, lo) + " " + vc.sub("(s-cap "+x.S+")", lo) + ")", SSlice, x.T}
	case SStr:
		hi := "(str-len " + x.S + ")"
		if e.Hi != nil {
			hi = sc.solo(sc.evalTerm(e.Hi)).S
		}
		return &Term{"(mk-str (str-arr " + x.S + ") " + vc.add("(str-off "+x.S+")", lo) + " " + vc.sub(hi, lo) + ")", SStr, x.T}
	}
	unsup("spec: cannot slice %s", e.X)
	return nil
}

func (sc *specCtx) field(xv Val, name string) Val {
	vc := sc.vc
	if nt, ok := xv.(*NamedTuple); ok {
		for i, n := range nt.Names {
			if n == name && i < len(nt.Vals) {
				return nt.Vals[i]
			}
		}
		unsup("spec: no result named %s", name)
	}
	if loc, ok := xv.(*Loc); ok {
		// interior pointer to a struct value (e.g. &s[i] passed to a callee)
		s, ok := structOf(loc.T)
		if !ok {
			unsup("spec: field %s through interior pointer to %s", name, loc.T)
		}
		for i := 0; i < s.NumFields(); i++ {
			if s.Field(i).Name() == name {
				nl := *loc
				nl.Path = append(append([]pathStep{}, loc.Path...), pathStep{fld: i, sort: vc.sortOf(loc.T), ct: loc.T})
				nl.T = s.Field(i).Type()
				return vc.loadLoc(sc.st, &nl)
			}
		}
		unsup("spec: no field %s in %s", name, loc.T)
	}
	x, ok := xv.(*Term)
	if !ok {
		unsup("spec: field %s of non-term", name)
	}
	if x.T == nil {
		unsup("spec: field %s of untyped term %s", name, x.S)
	}
	t := types.Unalias(x.T)
	isPtr := false
	if p, ok := t.Underlying().(*types.Pointer); ok {
		t = p.Elem()
		isPtr = true
	}
	obj, path, _ := types.LookupFieldOrMethod(t, true, sc.pkgOrNil(), name)
	if _, isVar := obj.(*types.Var); !isVar {
		// try without package restriction (unexported fields of other packages)
		if s, ok := structOf(t); ok {
			for i := 0; i < s.NumFields(); i++ {
				if s.Field(i).Name() == name {
					path = []int{i}
					obj = s.Field(i)
				}
			}
		}
		if obj == nil {
			unsup("spec: no field %s in %s", name, t)
		}
	}
	cur := x
	curT := t
	for _, i := range path {
		s, ok := structOf(curT)
		if !ok {
			// embedded pointer
			if p, isP := types.Unalias(curT).Underlying().(*types.Pointer); isP {
				curT = p.Elem()
				isPtr = true
				s, _ = structOf(curT)
			} else {
				unsup("spec: field path through %s", curT)
			}
		}
		ft := s.Field(i).Type()
		if isPtr {
			if _, ok := structOf(ft); ok {
				cur = &Term{subRef(cur.S, i), SRef, types.NewPointer(ft)}
				curT = ft
				continue
			}
			if _, ok := arrayOf(ft); ok {
				cur = &Term{subRef(cur.S, i), SRef, types.NewPointer(ft)}
				curT = ft
				// pointer to array: indexable
				isPtr = true
				continue
			}
			cur = &Term{"(select " + vc.heapGet(sc.st, vc.fieldHV(curT, i)) + " " + cur.S + ")", vc.sortOf(ft), ft}
			curT = ft
			_, isPtr = types.Unalias(ft).Underlying().(*types.Pointer)
			if isPtr {
				curT = types.Unalias(ft).Underlying().(*types.Pointer).Elem()
			}
			continue
		}
		cur = &Term{fmt.Sprintf("(%s_f%d %s)", vc.sortOf(curT), i, cur.S), vc.sortOf(ft), ft}
		curT = ft
		if p, ok := types.Unalias(ft).Underlying().(*types.Pointer); ok {
			isPtr = true
			curT = p.Elem()
		}
	}
	return cur
}

func (sc *specCtx) pkgOrNil() *types.Package { return sc.pkg }

func (sc *specCtx) call(e *CCall) Val {
	vc := sc.vc
	arg := func(i int) *Term { return sc.evalTerm(e.Args[i]) }
	switch e.F {
	case "old":
		n := *sc
		n.st = sc.old
		return n.eval(e.Args[0])
	case "len", "cap":
		x := arg(0)
		it := types.Typ[types.Int]
		switch {
		case x.Sort == SSlice:
			return &Term{"(s-" + e.F + " " + x.S + ")", vc.idxSort(), it}
		case x.Sort == SStr:
			return &Term{"(str-len " + x.S + ")", vc.idxSort(), it}
		case x.T != nil:
			if a, ok := arrayOf(x.T); ok {
				return sc.lit(big.NewInt(a.Len()))
			}
			if p, ok := types.Unalias(x.T).Underlying().(*types.Pointer); ok {
				if a, ok := arrayOf(p.Elem()); ok {
					return sc.lit(big.NewInt(a.Len()))
				}
			}
		}
		unsup("spec: len of %s", e.Args[0])
	case "deref":
		x := arg(0)
		p, ok := types.Unalias(x.T).Underlying().(*types.Pointer)
		if !ok {
			unsup("spec: deref of non-pointer")
		}
		return vc.loadRef(sc.st, x.S, p.Elem())
	case "int", "int64", "uint64", "uint", "byte", "uint8", "uint16", "uint32", "int32", "int16", "int8":
		x := sc.solo(arg(0))
		_, to := sc.quantSort(e.F)
		if x.T == nil || !isIntType(x.T) {
			if vc.mode == "bv" {
				// assume 64-bit source
				x = &Term{x.S, x.Sort, types.Typ[types.Int64]}
				if bvBits(x.Sort) != 64 {
					unsup("spec: conversion of untyped bv term")
				}
			} else {
				return &Term{vc.wrapInt(x.S, to), "Int", to}
			}
		}
		return vc.convert(sc.st, x, x.T, to, 0)
	case "ref":
		x := arg(0)
		if x.Sort == SSlice {
			return &Term{"(s-ref " + x.S + ")", SRef, nil}
		}
		return x
	case "fcall":
		// fcall(f, x): the predicate value f applied to x. For an opaque function
		// parameter this is an uninterpreted application; where a concrete
		// function is passed it is that function's contract.
		fv := sc.eval(e.Args[0])
		x := sc.solo(arg(1))
		switch f := fv.(type) {
		case *Term:
			return &Term{vc.fapp(f.S, x), SBool, nil}
		case *FuncVal:
			cc := vc.eng.contractFor(f.Fn)
			if cc == nil || cc.Inline || len(cc.Modifies) > 0 {
				unsup("spec: fcall of %s needs a pure contract", f.Fn)
			}
			if strings.Contains(x.S, "?") {
				unsup("spec: fcall with a bound variable argument")
			}
			n := &specCtx{vc: vc, st: sc.st, old: sc.st, vars: map[string]Val{}, bound: map[string]*Term{}, pkg: pkgOf(f.Fn), fn: f.Fn}
			pt := f.Fn.Signature.Params().At(0).Type()
			bindCall(n, f.Fn, cc, []Val{&Term{x.S, x.Sort, pt}})
			r := vc.freshConst("fc_"+sanitize(f.Fn.Name()), f.Fn.Signature.Results().At(0).Type())
			bindResults(n, cc, r)
			for _, en := range cc.Ensures {
				vc.assume(n.evalBool(en.Expr))
			}
			if cc.Assumed {
				vc.trusted[f.Fn.String()+" (assumed contract)"] = true
			} else {
				vc.usedContracts[f.Fn.String()] = true
			}
			return r
		}
		unsup("spec: fcall of %T", fv)
	case "frame":
		// frame(): the function's own frame condition as a loop invariant: every
		// heap location that existed at entry and is not named by the modifies
		// clause still has its entry value
		c := vc.contract
		if c == nil {
			return &Term{"true", SBool, nil}
		}
		n := *sc
		n.st = sc.old
		allowed := map[string][]string{}
		for _, m := range c.Modifies {
			locs, all := n.lvalues(m.Expr)
			if all {
				return &Term{"true", SBool, nil}
			}
			for _, l := range locs {
				if l.ref == "" {
					allowed[l.hv] = append(allowed[l.hv], "*")
				} else {
					allowed[l.hv] = append(allowed[l.hv], l.ref)
				}
			}
		}
		var parts []string
		for _, h := range vc.heapVars {
			if strings.HasPrefix(h, "G_") {
				continue
			}
			whole := false
			conds := []string{"(< (rid r) alloc0)", "(not (= r nil))"}
			for _, r := range allowed[h] {
				if r == "*" {
					whole = true
				}
				conds = append(conds, "(not (= r "+r+"))")
			}
			cur, old := vc.heapGet(sc.st, h), vc.heapGet(sc.old, h)
			if whole || cur == old {
				continue
			}
			parts = append(parts, "(forall ((r Ref)) (! (=> "+and(conds...)+" (= (select "+cur+" r) (select "+old+" r))) :pattern ((select "+cur+" r))))")
		}
		return &Term{and(parts...), SBool, nil}
	case "sarr":
		// the underlying byte array of a string value (strings are array/offset/length triples)
		x := arg(0)
		if x.Sort != SStr {
			unsup("spec: sarr() takes a string")
		}
		return &Term{"(str-arr " + x.S + ")", "(Array " + vc.idxSort() + " " + vc.intSort(8) + ")", nil}
	case "framed":
		// framed(s1, s2, ...): every array of this element type that existed at
		// function entry, other than the backing arrays of the listed slices, is
		// unchanged since entry (loop frame invariants for append-style code)
		var hv string
		conds := []string{"(< (rid r) alloc0)", "(not (= r nil))"}
		for i := range e.Args {
			x := arg(i)
			if x.Sort != SSlice || x.T == nil {
				unsup("spec: framed() takes slices")
			}
			h := vc.arrHV(x.T.Underlying().(*types.Slice).Elem())
			if hv != "" && h != hv {
				unsup("spec: framed() arguments of different element types")
			}
			hv = h
			conds = append(conds, "(not (= r (s-ref "+x.S+")))")
		}
		cur, old := vc.heapGet(sc.st, hv), vc.heapGet(sc.old, hv)
		if cur == old {
			return &Term{"true", SBool, nil}
		}
		return &Term{"(forall ((r Ref)) (! (=> " + and(conds...) + " (= (select " + cur + " r) (select " + old + " r))) :pattern ((select " + cur + " r))))", SBool, nil}
	case "panicvalue":
		// the value a panic leaves the function with (on_panic clauses)
		pv := "(mk-iface 0 0)"
		if sc.st != nil && sc.st.pval != "" {
			pv = sc.st.pval
		}
		return &Term{pv, SIface, types.NewInterfaceType(nil, nil)}
	case "recovered":
		// the function returned normally after one of its deferred calls recovered a panic
		r := "false"
		if sc.st != nil && sc.st.recov != "" {
			r = sc.st.recov
		}
		return &Term{r, SBool, types.Typ[types.Bool]}
	case "absval":
		// abstract integer value of an opaque object (uninterpreted function of the reference)
		x := arg(0)
		fn := "absval_" + sanitize(x.Sort)
		if !vc.declared[fn] {
			vc.declared[fn] = true
			vc.emitDecl("(declare-fun " + fn + " (" + x.Sort + ") " + vc.idxSort() + ")")
		}
		return &Term{"(" + fn + " " + x.S + ")", vc.idxSort(), types.Typ[types.Int]}
	case "pow2":
		a := sc.solo(arg(0))
		if vc.mode == "bv" {
			return &Term{"(bvshl " + vc.bigLit(big.NewInt(1), bvBits(a.Sort)) + " " + a.S + ")", a.Sort, a.T}
		}
		return &Term{"(pow2 " + a.S + ")", "Int", nil}
	case "update":
		// update(a, i, v): array a with element i replaced by v
		a := arg(0)
		i := sc.solo(arg(1))
		v := arg(2)
		if v.Sort == litSort {
			es := arrayElemSort(a.Sort)
			n, _ := new(big.Int).SetString(v.S, 10)
			if strings.HasPrefix(es, "(_ BitVec") {
				v = &Term{vc.bigLit(n, bvBits(es)), es, nil}
			} else {
				v = sc.solo(v)
			}
		}
		ii := i.S
		if i.T != nil && isIntType(i.T) {
			ii = vc.toIdx(i)
		}
		return &Term{"(store " + a.S + " " + ii + " " + v.S + ")", a.Sort, a.T}
	case "fresh":
		// allocated during the call / function (not reachable in the pre-state)
		x := arg(0)
		r := x.S
		if x.Sort == SSlice {
			r = "(s-ref " + x.S + ")"
		}
		return &Term{"(>= (rid " + r + ") " + sc.old.alloc + ")", SBool, nil}
	case "off":
		x := arg(0)
		if x.Sort == SSlice {
			return &Term{"(s-off " + x.S + ")", vc.idxSort(), types.Typ[types.Int]}
		}
		return &Term{"(str-off " + x.S + ")", vc.idxSort(), types.Typ[types.Int]}
	case "div", "mod":
		a, b := sc.coerce(arg(0), arg(1))
		return &Term{"(" + e.F + " " + a.S + " " + b.S + ")", "Int", a.T}
	case "min", "max":
		a, b := sc.coerce(arg(0), arg(1))
		c := vc.lt(a.S, b.S, signedOf(a, b))
		if e.F == "max" {
			c = vc.lt(b.S, a.S, signedOf(a, b))
		}
		return &Term{ite(c, a.S, b.S), a.Sort, a.T}
	case "abs":
		a := sc.solo(arg(0))
		return &Term{"(ite (< " + a.S + " 0) (- " + a.S + ") " + a.S + ")", "Int", a.T}
	case "string":
		x := arg(0)
		if x.Sort == SSlice {
			return vc.convert(sc.st, x, x.T, types.Typ[types.String], 0)
		}
		return x
	case "typeis":
		// typeis(x, T): dynamic type of interface value x is T
		x := arg(0)
		id, ok := e.Args[1].(*CIdent)
		tyname := ""
		if ok {
			tyname = id.Name
		} else if u, ok := e.Args[1].(*CUn); ok {
			tyname = u.Op + u.X.String()
		} else if s, ok := e.Args[1].(*CStr); ok {
			tyname = s.V
		}
		t := sc.namedType(tyname)
		if t == nil {
			unsup("spec: typeis: unknown type %s", e.Args[1])
		}
		return &Term{fmt.Sprintf("(= (i-tag %s) %d)", x.S, vc.typeTag(t)), SBool, nil}
	case "unbox":
		x := arg(0)
		tyname := ""
		if s, ok := e.Args[1].(*CStr); ok {
			tyname = s.V
		} else {
			tyname = e.Args[1].String()
		}
		t := sc.namedType(tyname)
		if t == nil {
			unsup("spec: unbox: unknown type %s", e.Args[1])
		}
		_, unbox := vc.boxFns(t)
		return &Term{"(" + unbox + " (i-val " + x.S + "))", vc.sortOf(t), t}
	}
	// spec function
	if sf := sc.vc.eng.specFn(sc.pkg, e.F); sf != nil {
		if len(sf.Params) != len(e.Args) {
			unsup("spec: %s expects %d arguments", e.F, len(sf.Params))
		}
		n := sc.child()
		if sf.PkgPath != "" && sc.pkg != nil && sf.PkgPath != sc.pkg.Path() {
			if p := sc.vc.eng.typesPkg(sf.PkgPath); p != nil {
				n.pkg = p
			}
		}
		for i, p := range sf.Params {
			v := sc.eval(e.Args[i])
			if t, ok := v.(*Term); ok {
				if t.Sort == litSort {
					t = sc.solo(t)
					if p.Type != "" {
						s, ty := n.quantSort(p.Type)
						if strings.HasPrefix(s, "(_ BitVec") {
							nn, _ := new(big.Int).SetString(sc.evalTerm(e.Args[i]).S, 10)
							t = &Term{vc.bigLit(nn, bvBits(s)), s, ty}
						} else {
							t = &Term{t.S, t.Sort, ty}
						}
					}
				} else if t.T == nil && p.Type != "" {
					_, ty := n.quantSort(p.Type)
					t = &Term{t.S, t.Sort, ty}
				}
				v = t
			}
			n.vars[p.Name] = v
		}
		if sf.Body == nil {
			// uninterpreted spec function: only congruence is known about it
			// (everything else comes from assumed contracts that mention it)
			rs, rty := n.quantSort(sf.Ret)
			if sf.Ret == "bool" {
				rs, rty = SBool, types.Typ[types.Bool]
			}
			fn := "usf_" + sanitize(sf.PkgPath) + "_" + sf.Name
			var as, sorts []string
			for _, p := range sf.Params {
				t, ok := n.vars[p.Name].(*Term)
				if !ok {
					unsup("spec: argument %s of %s is not a value", p.Name, sf.Name)
				}
				as = append(as, t.S)
				sorts = append(sorts, t.Sort)
			}
			if !vc.declared[fn] {
				vc.declared[fn] = true
				vc.emitDecl("(declare-fun " + fn + " (" + strings.Join(sorts, " ") + ") " + rs + ")")
			}
			return &Term{"(" + fn + " " + strings.Join(as, " ") + ")", rs, rty}
		}
		r := n.eval(sf.Body)
		if t, ok := r.(*Term); ok && sf.Ret != "" {
			t = n.solo(t)
			if t.T == nil {
				if _, ty := n.quantSort(sf.Ret); ty != nil {
					t = &Term{t.S, t.Sort, ty}
				}
			}
			return t
		}
		return r
	}
	if sc.lemma {
		var args []Val
		for _, a := range e.Args {
			args = append(args, sc.eval(a))
		}
		if r, ok := sc.callInSpec(e.F, args); ok {
			return r
		}
	}
	unsup("spec: unknown function %s", e.F)
	return nil
}

// intBitOp: bit operations on mathematical integers (int mode). An operand that
// is a choice between two literals (xor := 0 / 0xff) is decided per alternative.
func (sc *specCtx) intBitOp(op string, x, y *Term, rt types.Type) *Term {
	vc := sc.vc
	for k, o := range []*Term{y, x} {
		il, ok := vc.iteLit[o.S]
		if !ok {
			continue
		}
		alt := func(lit string) *Term {
			l := &Term{lit, o.Sort, o.T}
			if k == 0 {
				return sc.intBitOp(op, x, l, rt)
			}
			return sc.intBitOp(op, l, y, rt)
		}
		a, b := alt(il[1]), alt(il[2])
		return &Term{ite(il[0], a.S, b.S), "Int", rt}
	}
	switch op {
	case "&":
		if n, ok := vc.litVal(y.S); ok {
			return &Term{vc.andConst(x, n, rt), "Int", rt}
		}
		if isU8(x.T) && isU8(y.T) {
			return &Term{"(band8 " + x.S + " " + y.S + ")", "Int", rt}
		}
		return &Term{"(bandS " + x.S + " " + y.S + ")", "Int", rt}
	case "|":
		if s, ok := vc.bitConst(x, y, 64, true, func(v, p string) string { return "(ite (= (bitk " + v + " " + p + ") 0) " + p + " 0)" }); ok {
			return &Term{s, "Int", rt}
		}
		if isU8(x.T) && isU8(y.T) {
			return &Term{"(bor8 " + x.S + " " + y.S + ")", "Int", rt}
		}
		return &Term{"(borS " + x.S + " " + y.S + ")", "Int", rt}
	case "^":
		// x ^ 0xff on bytes is the complement
		for _, pr := range [][2]*Term{{x, y}, {y, x}} {
			if n, ok := vc.litVal(pr[1].S); ok && n.Cmp(big.NewInt(255)) == 0 && isU8(pr[0].T) {
				return &Term{"(- 255 " + pr[0].S + ")", "Int", rt}
			}
		}
		if s, ok := vc.bitConst(x, y, 64, true, func(v, p string) string { return "(ite (= (bitk " + v + " " + p + ") 0) " + p + " (- " + p + "))" }); ok {
			return &Term{s, "Int", rt}
		}
		if isU8(x.T) && isU8(y.T) {
			return &Term{"(bxor8 " + x.S + " " + y.S + ")", "Int", rt}
		}
		return &Term{"(bxorS " + x.S + " " + y.S + ")", "Int", rt}
	}
	panic("intBitOp: " + op)
}
