package main

import (
	"go/types"
	"strings"
)

// splitArgs splits the arguments of an s-expression application
// "(f a b c)" into [f a b c] (paren-aware).
func splitArgs(s string) []string {
	if len(s) < 2 || s[0] != '(' || s[len(s)-1] != ')' {
		return nil
	}
	in := s[1 : len(s)-1]
	var out []string
	depth, start := 0, -1
	for i := 0; i < len(in); i++ {
		c := in[i]
		switch c {
		case '(':
			if depth == 0 && start < 0 {
				start = i
			}
			depth++
		case ')':
			depth--
			if depth == 0 {
				out = append(out, in[start:i+1])
				start = -1
			}
		case ' ':
			if depth == 0 && start >= 0 {
				out = append(out, in[start:i])
				start = -1
			}
		default:
			if depth == 0 && start < 0 {
				start = i
			}
		}
	}
	if start >= 0 {
		out = append(out, in[start:])
	}
	return out
}

// conjuncts flattens a top-level (and ...) term.
func conjuncts(g string) []string {
	if !strings.HasPrefix(g, "(and ") {
		return []string{g}
	}
	var out []string
	for _, p := range splitArgs(g)[1:] {
		out = append(out, conjuncts(p)...)
	}
	return out
}

// simplifySel reduces (s-len (mk-slice r o l c)) etc. to the component.
func simplifySel(s string) string {
	a := splitArgs(s)
	if len(a) != 2 {
		return s
	}
	inner := splitArgs(a[1])
	if len(inner) == 0 {
		return s
	}
	switch {
	case inner[0] == "mk-slice" && len(inner) == 5:
		switch a[0] {
		case "s-ref":
			return inner[1]
		case "s-off":
			return inner[2]
		case "s-len":
			return inner[3]
		case "s-cap":
			return inner[4]
		}
	case inner[0] == "mk-str" && len(inner) == 4:
		switch a[0] {
		case "str-arr":
			return inner[1]
		case "str-off":
			return inner[2]
		case "str-len":
			return inner[3]
		}
	}
	if strings.HasPrefix(s, "(") {
		return s
	}
	return s
}

// isU8 reports whether t is an 8 bit unsigned integer type (byte).
func isU8(t types.Type) bool {
	if t == nil {
		return false
	}
	b, ok := t.Underlying().(*types.Basic)
	return ok && b.Kind() == types.Uint8
}

// mirrorName: field name used in the mirror struct of a foreign struct type.
func mirrorName(f *types.Var) string {
	if f.Embedded() {
		return "E" + f.Name()
	}
	return f.Name()
}
