package main

// Contract files: comment-only Go files (verif_contracts.go, //go:build verif)
// in /repo packages, and /verif/contracts/*.vc for assumed library contracts.
// Only lines starting with "//@" are read.

import (
	"fmt"
	"math/big"
	"os"
	"regexp"
	"strconv"
	"strings"
)

func newBig() *big.Int { return new(big.Int) }

type Clause struct {
	Name string
	Top  bool // comes from the property statement
	Src  string
	Expr CExpr
	Line int
}

type LoopSpec struct {
	Invariants []*Clause
	Decreases  *Clause
	Unroll     int // 0 = cut by invariant
}

type Contract struct {
	File     string
	Line     int
	PkgPath  string
	Key      string // "(*T).m", "(T).m" or "f"
	RecvName string
	Params   []string
	Results  []string
	Requires []*Clause
	Ensures  []*Clause
	Modifies []*Clause
	PanicsIf *Clause
	// Atomic: a call of this function is one atomic step on shared state.
	// Guarantees: two-state conditions the function keeps across each of the
	// atomic steps it performs (rely/guarantee style interference contract).
	Atomic     bool
	Guarantees []*Clause
	// Interference by other threads (rely side): Shared lists the locations other
	// threads may write; before every call the function makes they are given
	// arbitrary new values constrained only by the Rely clauses (two-state:
	// old(e) is the value before the interference).
	Shared []*Clause
	Rely   []*Clause
	// AtAtomic: ghost variable := expression, executed right after every atomic
	// step the function performs (a snapshot of shared state at that instant)
	AtAtomic []*GhostDef
	// BeforeCall: ghost variable := expression, executed right before every call
	// of a callee whose name contains Type (a snapshot of the state the callee
	// starts in); syntax: before_call <callee-substring> ghostvar = expr
	BeforeCall []*GhostDef
	// LockInv: monitor invariants - assumed after sync.Mutex.Lock, obliged
	// before sync.Mutex.Unlock
	LockInv []*Clause
	// Defines: clauses naming the result by uninterpreted spec functions
	// (assumed at call sites, not obliged in the body)
	Defines []*Clause
	// OnPanic: post-conditions of the exits by panic (functions whose deferred
	// calls use recover)
	OnPanic []*Clause
	// MayPanic: function may panic under its precondition without it being an obligation
	// (used for functions whose panics are their documented refusal).
	EnsuresPanic bool
	Loops        map[int]*LoopSpec
	Inline       bool
	Assumed      bool   // trusted contract: used at call sites, body not verified
	Mode         string // "int" | "bv" | ""
	Arith        string // "" (overflow obligations) | "wrap"
	NoNil        bool   // do not generate nil-dereference obligations
	NoSafety     bool   // generate only pre/post/panic obligations (permission-style contracts)
	FuncZero     bool   // func(byte) bool parameters are pure predicates that are false for 0
	PureCalls    bool   // calls through function values are assumed effect-free
	TrustFrame   bool   // the modifies clause is assumed, not checked (listed as an assumption)
	MayPanic     bool   // explicit panics are allowed (error reporting), no obligation either way
	Props        []string
	Pure         bool
	Replay       string
	Ghosts       []CVar // ghost (existential witness) parameters
	Opaque       []string
	GhostRes     []*GhostDef // ghost results: values of locals at return
}

type GhostDef struct {
	Name, Type string
	Expr       CExpr
	Src        string
}

type SpecFn struct {
	PkgPath string
	Name    string
	Params  []CVar
	Ret     string
	Body    CExpr
	Src     string
}

type Lemma struct {
	PkgPath string
	Name    string
	Params  []CVar
	Body    CExpr
	Src     string
	Props   []string
	Mode    string
	Top     bool
	Line    int
	File    string
	Uses    []string
}

type TypeInv struct {
	PkgPath string
	Type    string
	Self    string
	Clause  *Clause
}

type GhostVar struct {
	PkgPath string
	Name    string
	Type    string
}

type ContractSet struct {
	Funcs    map[string]*Contract // key: pkgpath + "#" + Key
	Specs    map[string]*SpecFn   // key: pkgpath + "#" + name ; also bare name for global
	Lemmas   []*Lemma
	TypeInvs map[string]*TypeInv // pkgpath#Type
	Ghosts   map[string]*GhostVar
	Pragmas  map[string]map[string]string // pkgpath -> key -> value
	Errors   []string
	Order    []string
}

func NewContractSet() *ContractSet {
	return &ContractSet{Funcs: map[string]*Contract{}, Specs: map[string]*SpecFn{},
		TypeInvs: map[string]*TypeInv{}, Ghosts: map[string]*GhostVar{}, Pragmas: map[string]map[string]string{}}
}

var clauseKw = map[string]bool{"requires": true, "ensures": true, "ensures!": true, "modifies": true, "panics_if": true,
	"loop": true, "inline": true, "assumed": true, "mode": true, "arith": true, "func": true, "spec": true, "type": true,
	"lemma": true, "lemma!": true, "pragma": true, "property": true, "package": true, "ghost": true, "replay": true,
	"atomic": true, "guarantee": true, "shared": true, "rely": true, "at_atomic": true, "before_call": true, "lockinv": true, "defines": true, "on_panic": true,
	"ensures_panic": true, "nonil": true, "pure": true, "witness": true, "end": true, "uses": true, "nosafety": true, "trustframe": true, "maypanic": true, "funczero": true, "purecalls": true}

var nameRe = regexp.MustCompile(`^([A-Za-z_][A-Za-z0-9_.]*):\s+`)

// logical lines: a "//@" line whose first word is a keyword starts a new item,
// other "//@" lines continue the previous one.
type logLine struct {
	kw   string
	rest string
	line int
}

func readLogical(path string) ([]logLine, error) {
	data, err := os.ReadFile(path)
	if err != nil {
		return nil, err
	}
	var out []logLine
	for i, ln := range strings.Split(string(data), "\n") {
		t := strings.TrimSpace(ln)
		if !strings.HasPrefix(t, "//@") {
			continue
		}
		t = strings.TrimSpace(t[3:])
		// strip trailing comment introduced by " //"
		if k := strings.Index(t, " // "); k >= 0 {
			t = strings.TrimSpace(t[:k])
		}
		if t == "" {
			continue
		}
		w := t
		if k := strings.IndexAny(t, " \t"); k >= 0 {
			w = t[:k]
		}
		if clauseKw[w] {
			out = append(out, logLine{w, strings.TrimSpace(t[len(w):]), i + 1})
		} else if len(out) > 0 {
			out[len(out)-1].rest += " " + t
		} else {
			return nil, fmt.Errorf("%s:%d: continuation without item", path, i+1)
		}
	}
	return out, nil
}

func (cs *ContractSet) errf(format string, a ...any) {
	cs.Errors = append(cs.Errors, fmt.Sprintf(format, a...))
}

func (cs *ContractSet) pragma(pkg, key string) string {
	if m := cs.Pragmas[pkg]; m != nil {
		return m[key]
	}
	return ""
}

func parseClause(rest string, line int, top bool) (*Clause, error) {
	c := &Clause{Top: top, Line: line}
	if m := nameRe.FindStringSubmatch(rest); m != nil {
		c.Name = m[1]
		rest = rest[len(m[0]):]
	}
	c.Src = rest
	e, err := ParseCExpr(rest)
	if err != nil {
		return nil, err
	}
	c.Expr = e
	return c, nil
}

var funcRe = regexp.MustCompile(`^(?:\(\s*(\w+)\s+(\*?)\s*([\w.\[\]]+)\s*\)\s*)?([\w.]+)\s*\(([^)]*)\)\s*(?:\(([^)]*)\))?$`)

func splitNames(s string) []string {
	var out []string
	for _, f := range strings.Split(s, ",") {
		f = strings.TrimSpace(f)
		if f == "" {
			continue
		}
		// allow "name type": take first word
		if k := strings.IndexAny(f, " \t"); k >= 0 {
			f = f[:k]
		}
		out = append(out, f)
	}
	return out
}

func parseVars(s string) []CVar {
	var out []CVar
	for _, f := range strings.Split(s, ",") {
		f = strings.TrimSpace(f)
		if f == "" {
			continue
		}
		v := CVar{Name: f}
		if k := strings.IndexAny(f, " \t"); k >= 0 {
			v.Name, v.Type = f[:k], strings.TrimSpace(f[k:])
		}
		out = append(out, v)
	}
	for i := len(out) - 2; i >= 0; i-- {
		if out[i].Type == "" {
			out[i].Type = out[i+1].Type
		}
	}
	return out
}

// LoadFile parses one contract file. pkgPath is the package the file sits in
// ("" for .vc files, which use "package" directives).
func (cs *ContractSet) LoadFile(path, pkgPath string) {
	lines, err := readLogical(path)
	if err != nil {
		cs.errf("%v", err)
		return
	}
	var cur *Contract
	var curLemma *Lemma
	var props []string
	mode := ""
	for _, ll := range lines {
		bad := func(err error) { cs.errf("%s:%d: %v", path, ll.line, err) }
		switch ll.kw {
		case "package":
			pkgPath = ll.rest
			cur = nil
		case "property":
			props = strings.Fields(ll.rest)
		case "pragma":
			f := strings.Fields(ll.rest)
			if len(f) < 2 {
				bad(fmt.Errorf("pragma needs key value"))
				continue
			}
			if f[0] == "mode" {
				mode = f[1]
			}
			if cs.Pragmas[pkgPath] == nil {
				cs.Pragmas[pkgPath] = map[string]string{}
			}
			cs.Pragmas[pkgPath][f[0]] = strings.Join(f[1:], " ")
		case "func":
			m := funcRe.FindStringSubmatch(ll.rest)
			if m == nil {
				bad(fmt.Errorf("bad func header %q", ll.rest))
				cur = nil
				continue
			}
			c := &Contract{File: path, Line: ll.line, PkgPath: pkgPath, Loops: map[int]*LoopSpec{}, Mode: mode, Props: props}
			name := m[4]
			if m[3] != "" {
				c.RecvName = m[1]
				if m[2] == "*" {
					c.Key = "(*" + m[3] + ")." + name
				} else {
					c.Key = "(" + m[3] + ")." + name
				}
			} else {
				c.Key = name
			}
			c.Params = splitNames(m[5])
			c.Results = splitNames(m[6])
			k := pkgPath + "#" + c.Key
			if cs.Funcs[k] != nil {
				bad(fmt.Errorf("duplicate contract for %s", k))
			}
			cs.Funcs[k] = c
			cs.Order = append(cs.Order, k)
			cur = c
			curLemma = nil
		case "requires", "ensures", "ensures!", "panics_if", "modifies":
			if cur == nil {
				bad(fmt.Errorf("%s outside func", ll.kw))
				continue
			}
			if ll.kw == "modifies" {
				for _, part := range splitTop(ll.rest) {
					cl, err := parseClause(part, ll.line, false)
					if err != nil {
						bad(err)
						continue
					}
					cur.Modifies = append(cur.Modifies, cl)
				}
				continue
			}
			cl, err := parseClause(ll.rest, ll.line, ll.kw == "ensures!")
			if err != nil {
				bad(err)
				continue
			}
			switch ll.kw {
			case "requires":
				cur.Requires = append(cur.Requires, cl)
			case "ensures", "ensures!":
				if cl.Name == "" {
					cl.Name = strconv.Itoa(len(cur.Ensures))
				}
				cur.Ensures = append(cur.Ensures, cl)
			case "panics_if":
				cur.PanicsIf = cl
			}
		case "ensures_panic":
			if cur != nil {
				cur.EnsuresPanic = true
			}
		case "on_panic":
			// on_panic name: P - holds whenever a panic leaves the function (after its
			// deferred calls ran); panicvalue() is the value it leaves with
			if cur == nil {
				bad(fmt.Errorf("on_panic outside func"))
				continue
			}
			cl, err := parseClause(ll.rest, ll.line, true)
			if err != nil {
				bad(err)
				continue
			}
			if cl.Name == "" {
				cl.Name = strconv.Itoa(len(cur.OnPanic))
			}
			cur.OnPanic = append(cur.OnPanic, cl)
		case "defines":
			// defines <expr over results and uninterpreted spec functions>: names the
			// result of a deterministic function so that other contracts can refer
			// to it; assumed at call sites, no obligation on the body (the
			// determinism of the function is the assumption, listed in the evidence)
			if cur == nil {
				bad(fmt.Errorf("defines outside func"))
				continue
			}
			cl, err := parseClause(ll.rest, ll.line, false)
			if err != nil {
				bad(err)
				continue
			}
			cur.Defines = append(cur.Defines, cl)
		case "atomic":
			// the call is one atomic step on shared state (sync/atomic operations)
			if cur != nil {
				cur.Atomic = true
			}
		case "guarantee":
			// two-state condition that must hold across every atomic step the
			// function performs (old(e): value before the step)
			if cur == nil {
				bad(fmt.Errorf("guarantee outside func"))
				continue
			}
			cl, err := parseClause(ll.rest, ll.line, true)
			if err != nil {
				bad(err)
				continue
			}
			if cl.Name == "" {
				cl.Name = strconv.Itoa(len(cur.Guarantees))
			}
			cur.Guarantees = append(cur.Guarantees, cl)
		case "shared":
			if cur == nil {
				bad(fmt.Errorf("shared outside func"))
				continue
			}
			for _, part := range splitTop(ll.rest) {
				cl, err := parseClause(part, ll.line, false)
				if err != nil {
					bad(err)
					continue
				}
				cur.Shared = append(cur.Shared, cl)
			}
		case "rely", "lockinv":
			if cur == nil {
				bad(fmt.Errorf("%s outside func", ll.kw))
				continue
			}
			cl, err := parseClause(ll.rest, ll.line, true)
			if err != nil {
				bad(err)
				continue
			}
			if ll.kw == "rely" {
				cur.Rely = append(cur.Rely, cl)
			} else {
				if cl.Name == "" {
					cl.Name = strconv.Itoa(len(cur.LockInv))
				}
				cur.LockInv = append(cur.LockInv, cl)
			}
		case "at_atomic":
			// at_atomic ghostvar = expr
			if cur == nil {
				bad(fmt.Errorf("at_atomic outside func"))
				continue
			}
			eq := strings.Index(ll.rest, "=")
			if eq < 0 {
				bad(fmt.Errorf("at_atomic ghostvar = expr"))
				continue
			}
			e, err := ParseCExpr(strings.TrimSpace(ll.rest[eq+1:]))
			if err != nil {
				bad(err)
				continue
			}
			cur.AtAtomic = append(cur.AtAtomic, &GhostDef{Name: strings.TrimSpace(ll.rest[:eq]), Expr: e, Src: strings.TrimSpace(ll.rest[eq+1:])})
		case "before_call":
			// before_call <callee-substring> ghostvar = expr
			if cur == nil {
				bad(fmt.Errorf("before_call outside func"))
				continue
			}
			eq := strings.Index(ll.rest, "=")
			head := strings.Fields(strings.TrimSpace(ll.rest[:max(eq, 0)]))
			if eq < 0 || len(head) != 2 {
				bad(fmt.Errorf("before_call <callee-substring> ghostvar = expr"))
				continue
			}
			e, err := ParseCExpr(strings.TrimSpace(ll.rest[eq+1:]))
			if err != nil {
				bad(err)
				continue
			}
			cur.BeforeCall = append(cur.BeforeCall, &GhostDef{Name: head[1], Type: head[0], Expr: e, Src: strings.TrimSpace(ll.rest[eq+1:])})
		case "loop":
			if cur == nil {
				bad(fmt.Errorf("loop outside func"))
				continue
			}
			f := strings.SplitN(ll.rest, " ", 3)
			if len(f) < 3 {
				bad(fmt.Errorf("loop N (invariant|decreases|unroll) ..."))
				continue
			}
			n, err := strconv.Atoi(f[0])
			if err != nil {
				bad(err)
				continue
			}
			ls := cur.Loops[n]
			if ls == nil {
				ls = &LoopSpec{}
				cur.Loops[n] = ls
			}
			switch f[1] {
			case "invariant":
				cl, err := parseClause(f[2], ll.line, false)
				if err != nil {
					bad(err)
					continue
				}
				if cl.Name == "" {
					cl.Name = strconv.Itoa(len(ls.Invariants))
				}
				ls.Invariants = append(ls.Invariants, cl)
			case "decreases":
				cl, err := parseClause(f[2], ll.line, false)
				if err != nil {
					bad(err)
					continue
				}
				ls.Decreases = cl
			case "unroll":
				k, err := strconv.Atoi(strings.TrimSpace(f[2]))
				if err != nil {
					bad(err)
					continue
				}
				ls.Unroll = k
			default:
				bad(fmt.Errorf("unknown loop clause %s", f[1]))
			}
		case "inline":
			if cur != nil {
				cur.Inline = true
			}
		case "assumed":
			if cur != nil {
				cur.Assumed = true
			}
		case "pure":
			if cur != nil {
				cur.Pure = true
			}
		case "nonil":
			if cur != nil {
				cur.NoNil = true
			}
		case "nosafety":
			if cur != nil {
				cur.NoSafety = true
			}
		case "funczero":
			if cur != nil {
				cur.FuncZero = true
			}
		case "purecalls":
			if cur != nil {
				cur.PureCalls = true
			}
		case "trustframe":
			if cur != nil {
				cur.TrustFrame = true
			}
		case "maypanic":
			if cur != nil {
				cur.MayPanic = true
			}
		case "mode":
			if cur != nil {
				cur.Mode = ll.rest
			} else if curLemma != nil {
				curLemma.Mode = ll.rest
			}
		case "arith":
			if cur != nil {
				cur.Arith = ll.rest
			}
		case "replay":
			if cur != nil {
				cur.Replay = ll.rest
			}
		case "witness":
			if cur != nil {
				cur.Ghosts = append(cur.Ghosts, parseVars(ll.rest)...)
			}
		case "uses":
			if curLemma != nil {
				curLemma.Uses = append(curLemma.Uses, strings.Fields(ll.rest)...)
			}
		case "spec":
			// spec name(params) type = expr
			eq := strings.Index(ll.rest, "=")
			for eq >= 0 && eq+1 < len(ll.rest) && (ll.rest[eq+1] == '=' || (eq > 0 && strings.ContainsRune("<>!=", rune(ll.rest[eq-1])))) {
				k := strings.Index(ll.rest[eq+2:], "=")
				if k < 0 {
					eq = -1
				} else {
					eq += 2 + k
				}
			}
			head, body := strings.TrimSpace(ll.rest), ""
			if eq >= 0 {
				head, body = strings.TrimSpace(ll.rest[:eq]), strings.TrimSpace(ll.rest[eq+1:])
			}
			op := strings.Index(head, "(")
			cp := strings.LastIndex(head, ")")
			if op < 0 || cp < op {
				bad(fmt.Errorf("bad spec header"))
				continue
			}
			sf := &SpecFn{PkgPath: pkgPath, Name: strings.TrimSpace(head[:op]), Params: parseVars(head[op+1 : cp]),
				Ret: strings.TrimSpace(head[cp+1:]), Src: body}
			if body != "" { // no body: uninterpreted
				e, err := ParseCExpr(body)
				if err != nil {
					bad(err)
					continue
				}
				sf.Body = e
			}
			cs.Specs[pkgPath+"#"+sf.Name] = sf
		case "lemma", "lemma!":
			// lemma name(params): expr
			op := strings.Index(ll.rest, "(")
			cp := strings.Index(ll.rest, "):")
			if op < 0 || cp < op {
				bad(fmt.Errorf("lemma name(params): expr"))
				continue
			}
			lm := &Lemma{PkgPath: pkgPath, Name: strings.TrimSpace(ll.rest[:op]), Params: parseVars(ll.rest[op+1 : cp]),
				Src: strings.TrimSpace(ll.rest[cp+2:]), Props: props, Mode: mode, Top: ll.kw == "lemma!", Line: ll.line, File: path}
			e, err := ParseCExpr(lm.Src)
			if err != nil {
				bad(err)
				continue
			}
			lm.Body = e
			cs.Lemmas = append(cs.Lemmas, lm)
			curLemma = lm
			cur = nil
		case "type":
			// type T(self) invariant expr
			f := strings.SplitN(ll.rest, " invariant ", 2)
			if len(f) != 2 {
				bad(fmt.Errorf("type T(self) invariant expr"))
				continue
			}
			h := strings.TrimSpace(f[0])
			self := "self"
			if op := strings.Index(h, "("); op >= 0 {
				self = strings.TrimSuffix(strings.TrimSpace(h[op+1:]), ")")
				h = strings.TrimSpace(h[:op])
			}
			cl, err := parseClause(f[1], ll.line, false)
			if err != nil {
				bad(err)
				continue
			}
			cs.TypeInvs[pkgPath+"#"+h] = &TypeInv{PkgPath: pkgPath, Type: h, Self: self, Clause: cl}
		case "ghost":
			if cur != nil && !strings.HasPrefix(ll.rest, "var ") {
				// ghost name type = expr   (ghost result)
				eq := strings.Index(ll.rest, "=")
				if eq < 0 {
					bad(fmt.Errorf("ghost name type = expr"))
					continue
				}
				hd := strings.Fields(ll.rest[:eq])
				if len(hd) != 2 {
					bad(fmt.Errorf("ghost name type = expr"))
					continue
				}
				e, err := ParseCExpr(strings.TrimSpace(ll.rest[eq+1:]))
				if err != nil {
					bad(err)
					continue
				}
				cur.GhostRes = append(cur.GhostRes, &GhostDef{hd[0], hd[1], e, strings.TrimSpace(ll.rest[eq+1:])})
				continue
			}
			f := strings.Fields(ll.rest)
			if len(f) >= 3 && f[0] == "var" {
				cs.Ghosts[pkgPath+"#"+f[1]] = &GhostVar{pkgPath, f[1], strings.Join(f[2:], " ")}
			} else {
				bad(fmt.Errorf("ghost var name type"))
			}
		case "end":
			cur = nil
			curLemma = nil
		}
	}
}

// splitTop splits on commas not nested in brackets/parens.
func splitTop(s string) []string {
	var out []string
	depth, start := 0, 0
	for i, c := range s {
		switch c {
		case '(', '[':
			depth++
		case ')', ']':
			depth--
		case ',':
			if depth == 0 {
				out = append(out, strings.TrimSpace(s[start:i]))
				start = i + 1
			}
		}
	}
	if t := strings.TrimSpace(s[start:]); t != "" {
		out = append(out, t)
	}
	return out
}

// hasTaggedClause: does the contract have clauses named "Cnn_..." (clauses that
// belong to one property only)?
func (c *Contract) hasTaggedClause() bool {
	tagged := func(cls []*Clause) bool {
		for _, cl := range cls {
			if propTagRe.MatchString(cl.Name) {
				return true
			}
		}
		return false
	}
	if tagged(c.Ensures) || tagged(c.Guarantees) || tagged(c.OnPanic) {
		return true
	}
	for _, l := range c.Loops {
		if tagged(l.Invariants) {
			return true
		}
	}
	return false
}
