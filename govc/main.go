package main

import (
	"encoding/json"
	"flag"
	"fmt"
	"os"
	"path/filepath"
	"sort"
	"strconv"
	"strings"
	"time"

	"golang.org/x/tools/go/ssa"
	"golang.org/x/tools/go/ssa/ssautil"
)

type PropCfg struct {
	Packages []string `json:"packages"`
	Note     string   `json:"note"`
	Assume   []string `json:"assumptions"`
}

type Finding struct {
	Property   string `json:"property"`
	Obligation string `json:"obligation"`
	Status     string `json:"status"` // known | fixed
	What       string `json:"what"`
	Commit     string `json:"commit,omitempty"`
}

func loadFindings(path string) []Finding {
	data, err := os.ReadFile(path)
	if err != nil {
		return nil
	}
	var out []Finding
	for _, ln := range strings.Split(string(data), "\n") {
		ln = strings.TrimSpace(ln)
		if ln == "" || strings.HasPrefix(ln, "#") {
			continue
		}
		var f Finding
		if json.Unmarshal([]byte(ln), &f) == nil {
			out = append(out, f)
		}
	}
	return out
}

func main() {
	if len(os.Args) < 2 {
		die("usage: govc check -prop Cnn [-tier quick|thorough] | govc dump ...")
	}
	switch os.Args[1] {
	case "check":
		os.Exit(cmdCheck(os.Args[2:]))
	case "replay":
		os.Exit(cmdReplay(os.Args[2:]))
	case "dump":
		// govc dump <pkgpattern> <func-substring>
		eng, err := LoadEngine("/repo", "/verif", []string{os.Args[2]})
		if err != nil {
			die("%v", err)
		}
		for _, p := range eng.pkgs {
			sp := eng.prog.Package(p.Types)
			for fn := range ssautilAll(eng.prog) {
				if fn.Pkg == sp && strings.Contains(fn.String(), os.Args[3]) {
					loops, _ := findLoops(fn, nil)
					fn.WriteTo(os.Stdout)
					for _, l := range loops {
						fmt.Printf("# loop %d header block %d\n", l.ordinal, l.header.Index)
					}
				}
			}
		}
	default:
		die("unknown command %s", os.Args[1])
	}
}

func cmdCheck(args []string) int {
	fs := flag.NewFlagSet("check", flag.ExitOnError)
	prop := fs.String("prop", "", "property id")
	tier := fs.String("tier", "quick", "quick|thorough")
	repo := fs.String("repo", "/repo", "repository")
	verif := fs.String("verif", "/verif", "verif dir")
	only := fs.String("only", "", "only functions whose name contains this")
	writeBase := fs.Bool("write-baseline", false, "write baseline obligation list")
	verbose := fs.Bool("v", false, "verbose")
	keep := fs.Bool("keep", false, "keep query files")
	noEvidence := fs.Bool("no-evidence", false, "do not write the evidence file")
	fs.Parse(args)
	if t := os.Getenv("VERIF_TIER"); t != "" && !flagSet(fs, "tier") {
		*tier = t
	}
	seed, _ := strconv.Atoi(os.Getenv("VERIF_SEED"))
	t0 := time.Now()

	var props map[string]*PropCfg
	data, err := os.ReadFile(filepath.Join(*verif, "props.json"))
	if err != nil {
		die("props.json: %v", err)
	}
	if err := json.Unmarshal(data, &props); err != nil {
		die("props.json: %v", err)
	}
	pc := props[*prop]
	if pc == nil {
		die("property %s not configured", *prop)
	}
	eng, err := LoadEngine(*repo, *verif, pc.Packages)
	if err != nil {
		fmt.Printf("HARNESS-ERROR property=%s load: %v\n", *prop, err)
		return 2
	}
	eng.prop = *prop
	loadS := time.Since(t0).Seconds()

	// select work
	var frs []*FuncResult
	var ckeys []string
	for k, c := range eng.cs.Funcs {
		if c.Assumed || !hasProp(c.Props, *prop) {
			continue
		}
		if c.Inline && len(c.Ensures) == 0 && len(c.Requires) == 0 {
			continue
		}
		if *only != "" && !strings.Contains(k, *only) {
			continue
		}
		ckeys = append(ckeys, k)
	}
	sort.Strings(ckeys)
	tg := time.Now()
	for _, k := range ckeys {
		frs = append(frs, eng.VerifyFunc(eng.cs.Funcs[k]))
	}
	for _, lm := range eng.cs.Lemmas {
		if hasProp(lm.Props, *prop) && (*only == "" || strings.Contains(lm.Name, *only)) {
			frs = append(frs, eng.VerifyLemma(lm))
		}
	}
	genS := time.Since(tg).Seconds()

	dir, err := os.MkdirTemp("", "govc-"+*prop+"-")
	if err != nil {
		die("%v", err)
	}
	if !*keep {
		defer os.RemoveAll(dir)
	}
	cfg := &solveCfg{dir: dir, quickS: 3, timeoutS: 20, workers: 14, keep: *keep}
	if *tier == "thorough" {
		cfg.quickS, cfg.timeoutS = 10, 120
		cfg.crossCheck = true
	}
	// obligations known to discharge quickly on the unchanged tree get a last,
	// unhurried attempt before a timeout is reported as a violation
	cfg.mustDecide = map[string]bool{}
	cfg.slowDecide = map[string]bool{}
	if data, err := os.ReadFile(filepath.Join(*verif, "baseline", *prop+".obligations")); err == nil {
		for _, ln := range strings.Split(string(data), "\n") {
			if f := strings.Fields(ln); len(f) == 1 && !strings.HasPrefix(ln, "#") {
				cfg.mustDecide[f[0]] = true
			} else if len(f) == 2 && f[0] == "slow" {
				cfg.slowDecide[f[1]] = true
			}
		}
	}
	ts := time.Now()
	solveAll(cfg, frs)
	solveS := time.Since(ts).Seconds()

	rep := buildReport(eng, *prop, *tier, seed, pc, frs, *verif, *verbose)
	rep.LoadS, rep.GenS, rep.SolveS = loadS, genS, solveS
	rep.finish(*verif, *writeBase, time.Since(t0).Seconds(), !*noEvidence)
	if *keep {
		fmt.Println("queries kept in", dir)
	}
	return rep.exitCode
}

func ssautilAll(prog *ssa.Program) map[*ssa.Function]bool { return ssautil.AllFunctions(prog) }

func flagSet(fs *flag.FlagSet, name string) bool {
	found := false
	fs.Visit(func(f *flag.Flag) {
		if f.Name == name {
			found = true
		}
	})
	return found
}

func hasProp(ps []string, p string) bool {
	for _, x := range ps {
		if x == p {
			return true
		}
	}
	return false
}
