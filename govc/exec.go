package main

import (
	"fmt"
	"go/ast"
	"go/token"
	"go/types"
	"sort"
	"strings"

	"golang.org/x/tools/go/ssa"
)

type loopInfo struct {
	header  *ssa.BasicBlock
	body    map[*ssa.BasicBlock]bool
	ordinal int
	spec    *LoopSpec
	pos     token.Pos
}

type vnode struct {
	b     *ssa.BasicBlock
	key   string
	iters map[*loopInfo]int
	in    []*vedge
	out   []*vedge
	exit  *State
	cut   *loopInfo // non-nil: this node is the cut header of that loop
	idx   int
}

type vedge struct {
	from    *vnode
	to      *vnode // nil for sinks
	succIdx int
	predIdx int
	kind    int // 0 normal, 1 invEntry, 2 invBack, 3 unwindFail
	loop    *loopInfo
	cond    string // full condition (set when source processed)
	ok      bool
}

type frame struct {
	vc      *VC
	fn      *ssa.Function
	c       *Contract
	loops   []*loopInfo
	hdr     map[*ssa.BasicBlock]*loopInfo
	nodes   map[string]*vnode
	order   []*vnode
	retSt   []*State
	retVals []Val
	isTop   bool
	cur     ssa.Instruction // the instruction being executed (site of a surfacing panic)
	still   []*State        // panics raised by deferred calls on normal exits that leave this function
	// per cut loop: decreases value at header, old heap
	decr   map[*vnode]*Term
	cutSt  map[*vnode]*State
	panics []*State
	retGhost []Val
	bases    map[string][]baseRef
	unstable map[string]bool
}

func findLoops(fn *ssa.Function, c *Contract) ([]*loopInfo, map[*ssa.BasicBlock]*loopInfo) {
	hdr := map[*ssa.BasicBlock]*loopInfo{}
	var loops []*loopInfo
	for _, u := range fn.Blocks {
		for _, h := range u.Succs {
			if h.Dominates(u) {
				l := hdr[h]
				if l == nil {
					l = &loopInfo{header: h, body: map[*ssa.BasicBlock]bool{h: true}}
					hdr[h] = l
					loops = append(loops, l)
				}
				// natural loop of back edge u->h
				var stack []*ssa.BasicBlock
				if !l.body[u] {
					l.body[u] = true
					stack = append(stack, u)
				}
				for len(stack) > 0 {
					x := stack[len(stack)-1]
					stack = stack[:len(stack)-1]
					for _, p := range x.Preds {
						if !l.body[p] {
							l.body[p] = true
							stack = append(stack, p)
						}
					}
				}
			}
		}
	}
	// ordinals by source order of for/range statements
	var stmts []ast.Node
	if syn := fn.Syntax(); syn != nil {
		var body ast.Node
		switch s := syn.(type) {
		case *ast.FuncDecl:
			body = s.Body
		case *ast.FuncLit:
			body = s.Body
		}
		if body != nil {
			ast.Inspect(body, func(n ast.Node) bool {
				switch n.(type) {
				case *ast.FuncLit:
					return false
				case *ast.ForStmt, *ast.RangeStmt:
					stmts = append(stmts, n)
				}
				return true
			})
		}
	}
	taken := map[int]bool{}
	sorted := append([]*loopInfo{}, loops...)
	sort.SliceStable(sorted, func(i, j int) bool { return len(sorted[i].body) < len(sorted[j].body) })
	for _, l := range sorted {
		var poss []token.Pos
		for b := range l.body {
			for _, in := range b.Instrs {
				if _, isPhi := in.(*ssa.Phi); isPhi {
					continue // a phi's position is the variable's declaration
				}
				if p := in.Pos(); p.IsValid() {
					poss = append(poss, p)
				}
			}
		}
		best := -1
		for k, s := range stmts {
			if taken[k] {
				continue
			}
			all := len(poss) > 0
			for _, p := range poss {
				if p < s.Pos() || p >= s.End() {
					all = false
					break
				}
			}
			if all && (best < 0 || (s.Pos() >= stmts[best].Pos() && s.End() <= stmts[best].End())) {
				best = k
			}
		}
		if best >= 0 {
			taken[best] = true
			l.ordinal = best
			l.pos = stmts[best].Pos()
		} else {
			l.ordinal = -1 - l.header.Index
		}
	}
	sort.Slice(loops, func(i, j int) bool { return loops[i].ordinal < loops[j].ordinal })
	// goto-style loops without syntax get ordinals after the last statement
	k := len(stmts)
	for _, l := range loops {
		if l.ordinal < 0 {
			l.ordinal = k
			k++
		}
	}
	sort.Slice(loops, func(i, j int) bool { return loops[i].ordinal < loops[j].ordinal })
	if c != nil {
		for _, l := range loops {
			l.spec = c.Loops[l.ordinal]
		}
	}
	return loops, hdr
}

func (f *frame) loopsOf(b *ssa.BasicBlock) []*loopInfo {
	var out []*loopInfo
	for _, l := range f.loops {
		if l.body[b] {
			out = append(out, l)
		}
	}
	return out
}

func iterKey(b *ssa.BasicBlock, it map[*loopInfo]int) string {
	var parts []string
	for l, c := range it {
		parts = append(parts, fmt.Sprintf("L%d:%d", l.ordinal, c))
	}
	sort.Strings(parts)
	return fmt.Sprintf("%d|%s", b.Index, strings.Join(parts, ";"))
}

func (f *frame) node(b *ssa.BasicBlock, it map[*loopInfo]int) (*vnode, bool) {
	k := iterKey(b, it)
	if n, ok := f.nodes[k]; ok {
		return n, false
	}
	n := &vnode{b: b, key: k, iters: it}
	f.nodes[k] = n
	return n, true
}

// build constructs the acyclic virtual CFG.
func (f *frame) build() {
	f.nodes = map[string]*vnode{}
	entry, _ := f.node(f.fn.Blocks[0], map[*loopInfo]int{})
	var post []*vnode
	visited := map[*vnode]bool{}
	total := 0
	var dfs func(n *vnode)
	dfs = func(n *vnode) {
		visited[n] = true
		total++
		if total > 4000 {
			unsup("virtual CFG too large (unrolling)")
		}
		u := n.b
		for si, v := range u.Succs {
			// pred index for phi
			occ := 0
			for k := 0; k < si; k++ {
				if u.Succs[k] == v {
					occ++
				}
			}
			predIdx := -1
			for k, p := range v.Preds {
				if p == u {
					if occ == 0 {
						predIdx = k
						break
					}
					occ--
				}
			}
			e := &vedge{from: n, succIdx: si, predIdx: predIdx}
			it := map[*loopInfo]int{}
			for l, c := range n.iters {
				if l.body[v] {
					it[l] = c
				}
			}
			if l := f.hdr[v]; l != nil {
				e.loop = l
				back := l.body[u]
				unroll := l.spec != nil && l.spec.Unroll > 0
				switch {
				case back && !unroll:
					e.kind = 2
				case back && unroll:
					c := n.iters[l] + 1
					if c > l.spec.Unroll {
						e.kind = 3
					} else {
						it[l] = c
					}
				case !back && !unroll:
					e.kind = 1
				case !back && unroll:
					it[l] = 0
				}
			}
			n.out = append(n.out, e)
			if e.kind == 2 || e.kind == 3 {
				continue
			}
			t, _ := f.node(v, it)
			e.to = t
			if e.kind == 1 {
				t.cut = e.loop
			}
			t.in = append(t.in, e)
			if !visited[t] {
				dfs(t)
			}
		}
		post = append(post, n)
	}
	dfs(entry)
	for i := len(post) - 1; i >= 0; i-- {
		post[i].idx = len(f.order)
		f.order = append(f.order, post[i])
	}
}

// ---------- executing a function body ----------

// execFunc symbolically executes fn from state st. It returns the merged
// result value and exit state (nil state if the function never returns).
func (vc *VC) execFunc(fn *ssa.Function, c *Contract, args []Val, bindings []Val, st *State, isTop bool) (Val, *State) {
	if fn.Blocks == nil {
		unsup("function %s has no body", fn)
	}
	vc.depth++
	defer func() { vc.depth-- }()
	if vc.depth > 6 {
		unsup("inlining too deep at %s", fn)
	}
	f := &frame{vc: vc, fn: fn, c: c, isTop: isTop, decr: map[*vnode]*Term{}, cutSt: map[*vnode]*State{}}
	f.loops, f.hdr = findLoops(fn, c)
	for _, l := range f.loops {
		if l.spec == nil && vc.noSafety {
			// permission mode: a loop without a specification is cut with the
			// trivial invariant (everything it may write is havoced)
			l.spec = &LoopSpec{}
		}
		if l.spec == nil {
			unsup("loop %d of %s has no invariant/unroll", l.ordinal, fn)
		}
	}
	f.build()
	entrySt := st.clone()
	if !isTop {
		entrySt.names = map[string]Val{}
	}
	for i, p := range fn.Params {
		entrySt.env[p] = args[i]
		entrySt.names[p.Name()] = args[i]
	}
	for i, fv := range fn.FreeVars {
		entrySt.env[fv] = bindings[i]
	}
	var sink []*panicExit
	handles := handlesPanics(fn) || (isTop && c != nil && len(c.OnPanic) > 0)
	parentSink, parentOwner := vc.panicSink, vc.panicOwner
	if handles {
		vc.panicSink, vc.panicOwner = &sink, f
		vc.trusted["panics as control flow: deferred calls run on panic exits with recover() live; callee panics only where the callee's contract says maypanic/panics_if"] = true
	}
	for _, n := range f.order {
		f.process(n, entrySt)
	}
	if handles || len(f.still) > 0 {
		var recovered, still []*State
		if handles {
			vc.panicSink, vc.panicOwner = parentSink, parentOwner
			recovered, still = f.unwind(sink)
		}
		still = append(still, f.still...)
		for _, ps := range still {
			switch {
			case isTop:
				vc.panicOut = append(vc.panicOut, ps)
			case parentSink != nil:
				// the panic continues in the caller that models panics
				site := ssa.Instruction(nil)
				if parentOwner != nil {
					site = parentOwner.cur
				}
				*parentSink = append(*parentSink, &panicExit{st: ps, site: site})
			default:
				// nobody above models panics: as for any other panic site
				if vc.contract == nil || !vc.contract.MayPanic {
					vc.oblige(ps, "panic", "false", "a panic that is not recovered leaves "+fn.Name(), fn.Pos(), false)
				}
			}
		}
		for _, rec := range recovered {
			// a recovered panic returns normally with zero results
			if fn.Signature.Results().Len() > 0 {
				for i := 0; i < fn.Signature.Results().Len(); i++ {
					if fn.Signature.Results().At(i).Name() != "" {
						unsup("recovered panic in a function with named results")
					}
				}
			}
			var res Val
			switch fn.Signature.Results().Len() {
			case 0:
			case 1:
				res = vc.zero(fn.Signature.Results().At(0).Type())
			default:
				t := Tuple{}
				for i := 0; i < fn.Signature.Results().Len(); i++ {
					t = append(t, vc.zero(fn.Signature.Results().At(i).Type()))
				}
				res = t
			}
			f.retSt = append(f.retSt, rec)
			f.retVals = append(f.retVals, res)
			if f.isTop && f.c != nil && len(f.c.GhostRes) > 0 {
				f.retGhost = append(f.retGhost, f.ghostResults(rec))
			}
		}
	}
	if len(f.retSt) == 0 {
		return nil, nil
	}
	var conds []string
	for _, s := range f.retSt {
		conds = append(conds, s.reach)
	}
	out := vc.mergeStates(f.retSt, conds)
	var res Val
	if len(f.retVals) > 0 && f.retVals[0] != nil {
		m, ok := vc.mergeVal(conds, f.retVals)
		if !ok {
			unsup("cannot merge results of %s", fn)
		}
		res = m
	}
	if isTop && len(f.retGhost) > 0 {
		m, ok := vc.mergeVal(conds, f.retGhost)
		if !ok {
			unsup("cannot merge ghost results of %s", fn)
		}
		vc.ghostOut = m.(Tuple)
	}
	if !isTop {
		out.names = st.names
		// drop callee locals from env to keep maps small
		env := make(map[ssa.Value]Val, len(st.env))
		for k, v := range st.env {
			env[k] = v
		}
		out.env = env
	}
	return res, out
}

func (f *frame) process(n *vnode, entrySt *State) {
	vc := f.vc
	var st *State
	if n.idx == 0 && len(n.in) == 0 {
		st = entrySt
	} else {
		var sts []*State
		var conds []string
		var edges []*vedge
		for _, e := range n.in {
			if e.ok && e.from.exit != nil {
				sts = append(sts, e.from.exit)
				conds = append(conds, e.cond)
				edges = append(edges, e)
			}
		}
		if len(sts) == 0 {
			return // unreachable
		}
		st = vc.mergeStates(sts, conds)
		// phis
		for _, in := range n.b.Instrs {
			phi, ok := in.(*ssa.Phi)
			if !ok {
				break
			}
			var vals []Val
			for k, e := range edges {
				vals = append(vals, vc.val(sts[k], phi.Edges[e.predIdx]))
			}
			m, ok := vc.mergeVal(conds, vals)
			if !ok {
				unsup("cannot merge phi %s in %s", phi.Name(), f.fn)
			}
			st.env[phi] = m
			if phi.Comment != "" {
				st.names[phi.Comment] = m
			}
		}
		if n.cut != nil {
			f.cutHeader(n, st)
		}
	}
	for _, in := range n.b.Instrs {
		if _, ok := in.(*ssa.Phi); ok {
			continue
		}
		if st.dead {
			break
		}
		f.cur = in
		f.instr(n, st, in)
	}
	n.exit = st
}

func (f *frame) loopName(l *loopInfo) string { return fmt.Sprintf("loop%d", l.ordinal) }

func (f *frame) specCtx(st *State, old *State) *specCtx {
	sc := &specCtx{vc: f.vc, st: st, old: old, vars: map[string]Val{}, pkg: f.fn.Pkg.Pkg, fn: f.fn}
	return sc
}

func (f *frame) checkInvariants(l *loopInfo, st *State, kind string) {
	vc := f.vc
	bindHeaderNames(st, l.header)
	sc := f.specCtx(st, vc.oldState)
	sc.locals = st.names
	f.bindParams(sc)
	// a contract parameter name that is also a reassigned local would silently
	// denote the entry value in an invariant: demand distinct names
	for name, pv := range sc.vars {
		if lv, ok := st.names[name]; ok && !sameVal(pv, lv) {
			names := map[string]bool{name: true}
			for _, inv := range l.spec.Invariants {
				if mentions(inv.Expr, names) {
					unsup("loop invariant of %s mentions %q, which is both a contract parameter (entry value) and a reassigned local: rename the parameter in the contract header (e.g. %s0)", f.fn.Name(), name, name)
				}
			}
			if l.spec.Decreases != nil && mentions(l.spec.Decreases.Expr, names) {
				unsup("loop variant of %s mentions %q, which is both a contract parameter and a reassigned local: rename the parameter in the contract header", f.fn.Name(), name)
			}
		}
	}
	for _, inv := range l.spec.Invariants {
		g := sc.evalBool(inv.Expr)
		if call, ok := inv.Expr.(*CCall); ok && call.F == "frame" && strings.HasPrefix(g, "(and ") {
			// one obligation per heap variable keeps the queries small
			for k, part := range splitArgs(g)[1:] {
				vc.oblige(st, fmt.Sprintf("%s.%s.%s.frame%d", kind, f.loopName(l), inv.Name, k), part,
					fmt.Sprintf("loop invariant %s (%s): frame(), part %d", inv.Name, kind, k), l.pos, false)
			}
			continue
		}
		vc.oblige(st, fmt.Sprintf("%s.%s.%s", kind, f.loopName(l), inv.Name), g,
			fmt.Sprintf("loop invariant %s (%s): %s", inv.Name, kind, inv.Src), l.pos, false)
	}
}

func (f *frame) bindParams(sc *specCtx) {
	c := f.c
	if c == nil {
		return
	}
	params := f.fn.Params
	k := 0
	if f.fn.Signature.Recv() != nil && len(params) > 0 {
		if c.RecvName != "" {
			sc.vars[c.RecvName] = sc.st.env[params[0]]
			if v, ok := f.vc.oldState.env[params[0]]; ok {
				sc.vars[c.RecvName] = v
			}
		}
		k = 1
	}
	for i, name := range c.Params {
		if k+i < len(params) {
			p := params[k+i]
			if v, ok := f.vc.oldState.env[p]; ok {
				sc.vars[name] = v
			} else if v, ok := sc.st.env[p]; ok {
				sc.vars[name] = v
			}
		}
	}
	for n, t := range f.vc.ghost {
		sc.vars[n] = t
	}
}

func (f *frame) cutHeader(n *vnode, st *State) {
	vc := f.vc
	l := n.cut
	// 0. what the loop may write (also registers those heap variables, so that
	// frame() invariants cover them)
	hv, all, allocs := f.loopWrites(l)
	// 1. invariants hold on entry
	f.checkInvariants(l, st, "inv.entry")
	// 2. havoc loop-modified state
	for _, in := range n.b.Instrs {
		phi, ok := in.(*ssa.Phi)
		if !ok {
			break
		}
		old := st.env[phi]
		var nv Val
		switch o := old.(type) {
		case *Term:
			t := vc.freshSort("hv_"+phi.Name(), o.Sort)
			t.T = o.T
			vc.assume(vc.typingFact(t))
			vc.assumeAllocated(st, t)
			nv = t
		default:
			unsup("loop-carried value %s of kind %T", phi.Name(), old)
		}
		st.env[phi] = nv
		if phi.Comment != "" {
			st.names[phi.Comment] = nv
		}
	}
	if all {
		vc.havocAll(st)
	} else {
		for _, h := range hv {
			before := vc.heapGet(st, h)
			vc.havocHeapVar(st, h)
			if f.unstable[h] {
				continue
			}
			// automatic loop frame: objects allocated before the loop that the
			// body never writes through are unchanged
			var excl []string
			ok := true
			for _, b := range f.bases[h] {
				r, good := vc.refOfBase(st, b.v, b.isSlice)
				if !good {
					ok = false
					break
				}
				excl = append(excl, "(not (= r "+r+"))")
			}
			if !ok {
				continue
			}
			conds := append([]string{"(< (rid r) " + st.alloc + ")", "(not (= r nil))"}, excl...)
			vc.assume("(forall ((r Ref)) (! (=> " + and(conds...) + " (= (select " + vc.heapGet(st, h) + " r) (select " + before + " r))) :pattern ((select " + vc.heapGet(st, h) + " r))))")
		}
		if allocs {
			a := vc.fresh("alloc")
			vc.declare(a, "Int")
			vc.assume("(>= " + a + " " + st.alloc + ")")
			st.alloc = a
		}
	}
	// 3. assume invariants
	bindHeaderNames(st, l.header)
	sc := f.specCtx(st, vc.oldState)
	sc.locals = st.names
	f.bindParams(sc)
	for _, inv := range l.spec.Invariants {
		vc.assumeUnder(st.reach, sc.evalBool(inv.Expr))
	}
	if l.spec.Decreases != nil {
		d := sc.eval(l.spec.Decreases.Expr).(*Term)
		f.decr[n] = vc.define("decr", d)
	}
	f.cutSt[n] = st.clone()
}

// backEdge checks the invariants when control returns to a cut header.
func (f *frame) backEdge(e *vedge, st *State, cond string) {
	vc := f.vc
	l := e.loop
	// find the header node this back edge belongs to
	it := map[*loopInfo]int{}
	for ll, c := range e.from.iters {
		if ll.body[l.header] {
			it[ll] = c
		}
	}
	hn := f.nodes[iterKey(l.header, it)]
	bs := st.clone()
	bs.reach = vc.nameBool("back", cond)
	for _, in := range l.header.Instrs {
		phi, ok := in.(*ssa.Phi)
		if !ok {
			break
		}
		v := vc.val(st, phi.Edges[e.predIdx])
		bs.env[phi] = v
		if phi.Comment != "" {
			bs.names[phi.Comment] = v
		}
	}
	f.checkInvariants(l, bs, "inv.step")
	if l.spec.Decreases != nil && hn != nil && f.decr[hn] != nil {
		sc := f.specCtx(bs, vc.oldState)
		sc.locals = bs.names
		f.bindParams(sc)
		d := sc.eval(l.spec.Decreases.Expr).(*Term)
		d0 := f.decr[hn]
		signed := true
		z := vc.intLit(0, 64)
		if vc.mode == "bv" {
			bits := bvBits(d0.Sort)
			z = vc.intLit(0, bits)
		}
		vc.oblige(bs, "decr."+f.loopName(l), and(vc.le(z, d0.S, signed), vc.lt(d.S, d0.S, signed)),
			"loop variant decreases and is bounded below: "+l.spec.Decreases.Src, l.pos, false)
	}
}

func bvBits(sort string) int {
	var n int
	fmt.Sscanf(sort, "(_ BitVec %d)", &n)
	if n == 0 {
		n = 64
	}
	return n
}

// loopWrites statically collects the heap variables a loop body may write.
type baseRef struct {
	v       ssa.Value
	isSlice bool
}

func (f *frame) loopWrites(l *loopInfo) (hvs []string, all bool, allocs bool) {
	vc := f.vc
	set := map[string]bool{}
	f.bases = map[string][]baseRef{}
	f.unstable = map[string]bool{}
	addBase := func(h string, v ssa.Value, isSlice bool, top bool) {
		if !top || v == nil || !stableAt(v, l) {
			f.unstable[h] = true
			return
		}
		f.bases[h] = append(f.bases[h], baseRef{v, isSlice})
	}
	var visitFn func(fn *ssa.Function, blocks func(*ssa.BasicBlock) bool, depth int)
	visitFn = func(fn *ssa.Function, inBody func(*ssa.BasicBlock) bool, depth int) {
		if depth > 6 {
			all = true
			return
		}
		for _, b := range fn.Blocks {
			if !inBody(b) {
				continue
			}
			for _, in := range b.Instrs {
				switch in := in.(type) {
				case *ssa.Store:
					hs := vc.staticHeapVars(in.Addr, true)
					for _, h := range hs {
						set[h] = true
					}
					if root, _ := storeRoot(in.Addr); root != nil {
						if a, ok := root.(*ssa.Alloc); ok && (depth > 0 || inBody(a.Block())) {
							// the object is allocated inside the loop: objects that
							// exist at loop entry are not written through this store
							continue
						}
					}
					if len(hs) == 1 {
						b, isSl := storeRoot(in.Addr)
						addBase(hs[0], b, isSl, depth == 0)
					} else {
						for _, h := range hs {
							f.unstable[h] = true
						}
					}
				case *ssa.Alloc:
					allocs = true
					for _, h := range vc.typeHeapVars(in.Type().Underlying().(*types.Pointer).Elem()) {
						set[h] = true
					}
				case *ssa.MakeSlice:
					allocs = true
					set[vc.arrHV(in.Type().Underlying().(*types.Slice).Elem())] = true
				case *ssa.MakeMap, *ssa.MapUpdate:
					all = true
				case *ssa.Convert:
					if _, ok := in.Type().Underlying().(*types.Slice); ok {
						allocs = true
						set[vc.arrHV(in.Type().Underlying().(*types.Slice).Elem())] = true
					}
				case ssa.CallInstruction:
					com := in.Common()
					if bi, ok := com.Value.(*ssa.Builtin); ok {
						switch bi.Name() {
						case "append":
							allocs = true
							h := vc.arrHV(com.Args[0].Type().Underlying().(*types.Slice).Elem())
							set[h] = true
							addBase(h, com.Args[0], true, depth == 0)
						case "copy":
							h := vc.arrHV(com.Args[0].Type().Underlying().(*types.Slice).Elem())
							set[h] = true
							addBase(h, com.Args[0], true, depth == 0)
						case "delete", "clear":
							all = true
						}
						continue
					}
					callee := com.StaticCallee()
					if callee == nil {
						if mc, ok := com.Value.(*ssa.MakeClosure); ok {
							callee = mc.Fn.(*ssa.Function)
						}
					}
					if callee == nil {
						if com.IsInvoke() {
							if ic := vc.eng.ifaceContract(com); ic != nil {
								if len(ic.Modifies) > 0 {
									all = true
								}
								continue
							}
						}
						all = true
						continue
					}
					cc := vc.eng.contractFor(callee)
					switch {
					case cc != nil && !cc.Inline:
						allocs = true
						hs, a := vc.modifiesHeapVars(callee, cc)
						if a {
							all = true
						}
						for _, h := range hs {
							set[h] = true
							f.unstable[h] = true
						}
					case callee.Blocks != nil && (cc != nil && cc.Inline || vc.eng.autoInline(callee)):
						visitFn(callee, func(*ssa.BasicBlock) bool { return true }, depth+1)
					default:
						all = true
					}
				}
			}
		}
	}
	visitFn(f.fn, func(b *ssa.BasicBlock) bool { return l.body[b] }, 0)
	for h := range set {
		hvs = append(hvs, h)
	}
	sort.Strings(hvs)
	return
}

// typeHeapVars: heap vars holding an object of type t allocated as a unit.
func (vc *VC) typeHeapVars(t types.Type) []string {
	if s, ok := structOf(t); ok {
		var out []string
		for i := 0; i < s.NumFields(); i++ {
			ft := s.Field(i).Type()
			if _, ok := structOf(ft); ok {
				out = append(out, vc.typeHeapVars(ft)...)
			} else if _, ok := arrayOf(ft); ok {
				out = append(out, vc.typeHeapVars(ft)...)
			} else {
				out = append(out, vc.fieldHV(t, i))
			}
		}
		return out
	}
	if a, ok := arrayOf(t); ok {
		return []string{vc.arrHV(a.Elem())}
	}
	return []string{vc.cellHV(t)}
}

func interior(v ssa.Value) bool {
	switch v := v.(type) {
	case *ssa.IndexAddr:
		return true
	case *ssa.FieldAddr:
		return interior(v.X)
	}
	return false
}

// staticHeapVars mirrors fieldAddr/indexAddr/store to find the heap variable
// a store through addr writes.
func (vc *VC) staticHeapVars(addr ssa.Value, whole bool) []string {
	switch a := addr.(type) {
	case *ssa.FieldAddr:
		if interior(a.X) {
			return vc.staticHeapVars(a.X, false)
		}
		st := a.X.Type().Underlying().(*types.Pointer).Elem()
		s, _ := structOf(st)
		ft := s.Field(a.Field).Type()
		if _, ok := structOf(ft); ok {
			return vc.typeHeapVars(ft)
		}
		if _, ok := arrayOf(ft); ok {
			return vc.typeHeapVars(ft)
		}
		return []string{vc.fieldHV(st, a.Field)}
	case *ssa.IndexAddr:
		switch u := a.X.Type().Underlying().(type) {
		case *types.Slice:
			return []string{vc.arrHV(u.Elem())}
		case *types.Pointer:
			if interior(a.X) {
				return vc.staticHeapVars(a.X, false)
			}
			arr, _ := arrayOf(u.Elem())
			return []string{vc.arrHV(arr.Elem())}
		}
	}
	pt, ok := addr.Type().Underlying().(*types.Pointer)
	if !ok {
		return nil
	}
	return vc.typeHeapVars(pt.Elem())
}

// ---------- operands ----------

func (vc *VC) val(st *State, v ssa.Value) Val {
	switch v := v.(type) {
	case *ssa.Const:
		return vc.constTerm(v.Value, v.Type())
	case *ssa.Global:
		if t := vc.constGlobal(v); t != nil {
			return &GlobalConst{T: t}
		}
		return vc.global(v)
	case *ssa.Function:
		return &FuncVal{Fn: v}
	case *ssa.Builtin:
		unsup("builtin %s as value", v.Name())
	}
	if x, ok := st.env[v]; ok {
		return x
	}
	unsup("value %s (%T) not in environment", v.Name(), v)
	return nil
}

func (vc *VC) term(st *State, v ssa.Value) *Term {
	x := vc.val(st, v)
	t, ok := x.(*Term)
	if !ok {
		unsup("value %s is %T, scalar term expected", v.Name(), x)
	}
	return t
}

// ---------- instructions ----------

func (f *frame) instr(n *vnode, st *State, in ssa.Instruction) {
	vc := f.vc
	switch in := in.(type) {
	case *ssa.DebugRef:
		if id, ok := in.Expr.(*ast.Ident); ok {
			if _, isVar := in.Object().(*types.Var); isVar {
				if v, ok := st.env[in.X]; ok || isConstLike(in.X) {
					if !ok {
						v = vc.val(st, in.X)
					}
					if in.IsAddr {
						st.names["&"+id.Name] = v
						delete(st.names, id.Name)
					} else {
						st.names[id.Name] = v
						delete(st.names, "&"+id.Name)
					}
				}
			}
		}
	case *ssa.Alloc:
		t := in.Type().Underlying().(*types.Pointer).Elem()
		st.env[in] = vc.newObject(st, t, true)
		if r, ok := st.env[in].(*Term); ok && cellPrivate(in) {
			// a local variable that lives in a cell only because a function literal
			// of this function captures it: calls of other functions cannot reach it
			for _, h := range vc.typeHeapVars(t) {
				vc.privCells = append(vc.privCells, [2]string{h, r.S})
			}
		}
	case *ssa.BinOp:
		if (in.Op == token.OR || in.Op == token.XOR) && vc.mode != "bv" && isIntType(in.Type()) &&
			(lowZeroBits(in.X) >= maxBits(in.Y) || lowZeroBits(in.Y) >= maxBits(in.X)) {
			// the operands occupy disjoint bit ranges (x<<8 | y with y a byte): | and ^ are +
			x, y := vc.term(st, in.X), vc.term(st, in.Y)
			st.env[in] = vc.define("t", &Term{"(+ " + x.S + " " + y.S + ")", x.Sort, in.Type()})
			break
		}
		st.env[in] = vc.binop(st, in.Op, vc.term(st, in.X), vc.term(st, in.Y), in.Type(), in.Pos())
	case *ssa.UnOp:
		switch in.Op {
		case token.MUL:
			st.env[in] = vc.load(st, vc.val(st, in.X), in.Pos())
		case token.NOT:
			st.env[in] = &Term{not(vc.term(st, in.X).S), SBool, in.Type()}
		case token.SUB:
			x := vc.term(st, in.X)
			if isFloatType(in.Type()) {
				st.env[in] = vc.freshConst("fneg", in.Type())
				break
			}
			bits, _ := intInfo(in.Type())
			st.env[in] = vc.binop(st, token.SUB, &Term{vc.intLit(0, bits), x.Sort, x.T}, x, in.Type(), in.Pos())
		case token.XOR:
			x := vc.term(st, in.X)
			if vc.mode == "bv" {
				st.env[in] = &Term{"(bvnot " + x.S + ")", x.Sort, in.Type()}
			} else {
				_, signed := intInfo(in.Type())
				if signed {
					st.env[in] = &Term{"(- (- " + x.S + ") 1)", x.Sort, in.Type()}
				} else {
					_, hi := typeRange(in.Type())
					st.env[in] = &Term{"(- " + hi.String() + " " + x.S + ")", x.Sort, in.Type()}
				}
			}
		default:
			unsup("unary op %s", in.Op)
		}
	case *ssa.Call:
		r := f.call(st, in, in.Common(), in.Pos())
		if r != nil {
			st.env[in] = r
		}
	case *ssa.ChangeType:
		x := vc.val(st, in.X)
		if t, ok := x.(*Term); ok {
			x = &Term{t.S, vc.sortOf(in.Type()), in.Type()}
		}
		st.env[in] = x
	case *ssa.ChangeInterface:
		t := vc.term(st, in.X)
		st.env[in] = &Term{t.S, SIface, in.Type()}
	case *ssa.Convert:
		st.env[in] = vc.convert(st, vc.term(st, in.X), in.X.Type(), in.Type(), in.Pos())
	case *ssa.Extract:
		tv, ok := vc.val(st, in.Tuple).(Tuple)
		if !ok {
			unsup("extract from non-tuple")
		}
		st.env[in] = tv[in.Index]
	case *ssa.Field:
		x := vc.term(st, in.X)
		s, _ := structOf(in.X.Type())
		ft := s.Field(in.Field).Type()
		st.env[in] = &Term{fmt.Sprintf("(%s_f%d %s)", x.Sort, in.Field, x.S), vc.sortOf(ft), ft}
	case *ssa.FieldAddr:
		st.env[in] = vc.fieldAddr(st, vc.val(st, in.X), in.X.Type(), in.Field, in.Pos())
	case *ssa.Index:
		x := vc.term(st, in.X)
		i := vc.toIdx(vc.term(st, in.Index))
		if isStringType(in.X.Type()) {
			st.env[in] = vc.strIndex(st, x, i, in.Pos())
			break
		}
		a, ok := arrayOf(in.X.Type())
		if !ok {
			unsup("Index on %s", in.X.Type())
		}
		vc.boundsCheck(st, i, vc.intLit(a.Len(), 64), in.Pos(), "array value")
		r := &Term{"(select " + x.S + " " + i + ")", vc.sortOf(a.Elem()), a.Elem()}
		st.env[in] = vc.nameLoaded(st, r)
	case *ssa.Lookup:
		x := vc.term(st, in.X)
		if isStringType(in.X.Type()) {
			st.env[in] = vc.strIndex(st, x, vc.toIdx(vc.term(st, in.Index)), in.Pos())
			break
		}
		st.env[in] = vc.mapLookup(st, x, in.X.Type(), vc.term(st, in.Index), in.CommaOk)
	case *ssa.IndexAddr:
		st.env[in] = vc.indexAddr(st, vc.val(st, in.X), in.X.Type(), vc.term(st, in.Index), in.Pos())
	case *ssa.MakeClosure:
		fv := &FuncVal{Fn: in.Fn.(*ssa.Function)}
		for _, b := range in.Bindings {
			fv.Bindings = append(fv.Bindings, vc.val(st, b))
		}
		st.env[in] = fv
	case *ssa.MakeInterface:
		st.env[in] = vc.makeInterface(st, vc.val(st, in.X), in.X.Type(), in.Type())
	case *ssa.MakeSlice:
		st.env[in] = vc.makeSlice(st, in.Type(), vc.toIdx(vc.term(st, in.Len)), vc.toIdx(vc.term(st, in.Cap)), in.Pos())
	case *ssa.MakeMap:
		st.env[in] = vc.makeMap(st, in.Type())
	case *ssa.MapUpdate:
		vc.mapUpdate(st, vc.term(st, in.Map), in.Map.Type(), vc.term(st, in.Key), vc.term(st, in.Value))
	case *ssa.Slice:
		st.env[in] = vc.sliceOp(st, in)
	case *ssa.Store:
		v := vc.val(st, in.Val)
		tv, ok := v.(*Term)
		if !ok {
			if fv, isF := v.(*FuncVal); isF {
				_ = fv
				tv = vc.freshConst("funcval", in.Val.Type())
			} else {
				unsup("store of %T", v)
			}
		}
		vc.store(st, vc.val(st, in.Addr), tv, in.Pos())
	case *ssa.TypeAssert:
		st.env[in] = vc.typeAssert(st, vc.term(st, in.X), in.AssertedType, in.CommaOk, in.Pos())
	case *ssa.Jump:
		f.flow(n, st, []string{"true"})
	case *ssa.If:
		c := vc.term(st, in.Cond).S
		f.flow(n, st, []string{c, not(c)})
	case *ssa.Return:
		var res Val
		switch len(in.Results) {
		case 0:
		case 1:
			res = vc.val(st, in.Results[0])
		default:
			t := Tuple{}
			for _, r := range in.Results {
				t = append(t, vc.val(st, r))
			}
			res = t
		}
		f.retSt = append(f.retSt, st)
		f.retVals = append(f.retVals, res)
		if f.isTop && f.c != nil && len(f.c.GhostRes) > 0 {
			f.retGhost = append(f.retGhost, f.ghostResults(st))
		}
	case *ssa.Panic:
		f.panicAt(st, in)
	case *ssa.Range:
		// iteration over a map or string is abstracted: an opaque iterator
		vc.note("range over map/string abstracted as nondeterministic iteration")
		st.env[in] = vc.freshSort("iter", "Int")
	case *ssa.Next:
		okc := vc.freshSort("more", SBool)
		okc.T = types.Typ[types.Bool]
		tup := in.Type().(*types.Tuple)
		mk := func(t types.Type) Val {
			if b, isB := t.(*types.Basic); isB && b.Kind() == types.Invalid {
				return &Term{"0", "Int", nil}
			}
			v := vc.freshConst("it", t)
			vc.assumeAllocated(st, v)
			vc.assumeTypeInv(st, v)
			return v
		}
		st.env[in] = Tuple{okc, mk(tup.At(1).Type()), mk(tup.At(2).Type())}
	case *ssa.RunDefers:
		// deferred calls (other than mutex unlocks) run here, last deferred
		// first. Only defers that are certainly pending are supported: a Defer
		// whose block dominates this exit; one that may or may not have run
		// (conditional defer) is outside the subset.
		fn := in.Parent()
		var pending []*ssa.Defer
		for _, b := range fn.Blocks {
			for k, x := range b.Instrs {
				d, ok := x.(*ssa.Defer)
				if !ok || f.isUnlock(d) {
					continue
				}
				dom := b.Dominates(in.Block()) && (b != in.Block() || k < indexOf(in.Block(), in))
				if dom {
					pending = append(pending, d)
				} else if reaches(b, in.Block()) {
					unsup("defer that is not executed on every path to this exit")
				}
			}
		}
		// dominance order is execution order; run in reverse
		sort.SliceStable(pending, func(i, j int) bool {
			bi, bj := pending[i].Block(), pending[j].Block()
			if bi == bj {
				return indexOf(bi, pending[i]) < indexOf(bj, pending[j])
			}
			return bi.Dominates(bj)
		})
		if vc.panicSink != nil && len(pending) > 0 {
			// panics are control flow: a panic raised by a deferred call on this
			// normal exit continues with the remaining deferred calls only
			S := f.runDefers(st.clone(), pending)
			if S == nil {
				st.dead = true
				break
			}
			pk := S.panicking
			if pk == "" {
				pk = "false"
			}
			out := S.clone()
			out.reach = vc.nameBool("panicout", and(S.reach, pk))
			f.still = append(f.still, out)
			reach := vc.nameBool("returns", and(S.reach, not(pk)))
			*st = *S
			st.reach, st.panicking = reach, ""
			break
		}
		for k := len(pending) - 1; k >= 0 && !st.dead; k-- {
			d := pending[k]
			if callee := d.Call.StaticCallee(); callee != nil && usesRecover(callee) && vc.panicSink == nil {
				unsup("deferred function that calls recover (not in the function under contract itself)")
			}
			f.call(st, d, d.Common(), d.Pos())
		}
	case *ssa.Defer:
		f.deferInstr(st, in)
	case *ssa.Go:
		// starting a goroutine has no sequential effect; what it does later is
		// interference, which is outside the sequential model
		vc.note("goroutine start ignored: " + in.String() + " (its later effects are interference, not modelled)")
	default:
		unsup("instruction %T (%s)", in, in)
	}
}

func isConstLike(v ssa.Value) bool {
	switch v.(type) {
	case *ssa.Const, *ssa.Global, *ssa.Function:
		return true
	}
	return false
}

func (f *frame) isUnlock(in *ssa.Defer) bool {
	if callee := in.Call.StaticCallee(); callee != nil {
		name := callee.String()
		return strings.Contains(name, "sync.Mutex).Unlock") || strings.Contains(name, "sync.RWMutex).Unlock") ||
			strings.Contains(name, "sync.RWMutex).RUnlock")
	}
	return false
}

func (f *frame) deferInstr(st *State, in *ssa.Defer) {
	// A mutex unlock is a no-op here: a lock-protected method is verified as
	// one atomic step (mutual exclusion is trusted). Every other deferred call
	// is executed at the RunDefers instruction of each normal exit; what it
	// does while a panic unwinds is not modelled.
	if f.isUnlock(in) {
		f.vc.trusted["sync.Mutex (mutual exclusion; critical section verified as one atomic step)"] = true
		return
	}
	if callee := in.Call.StaticCallee(); callee != nil && usesRecover(callee) && f.vc.panicSink == nil {
		unsup("deferred function that calls recover (not in the function under contract itself)")
	}
	f.vc.note("deferred call " + in.Call.String() + ": executed at normal exits; its effect while a panic unwinds is not modelled")
}

// usesRecover: the function body (or a function literal inside it) calls recover.
func usesRecover(fn *ssa.Function) bool {
	for _, b := range fn.Blocks {
		for _, in := range b.Instrs {
			if c, ok := in.(ssa.CallInstruction); ok {
				if bi, ok := c.Common().Value.(*ssa.Builtin); ok && bi.Name() == "recover" {
					return true
				}
			}
		}
	}
	for _, a := range fn.AnonFuncs {
		if usesRecover(a) {
			return true
		}
	}
	return false
}

func indexOf(b *ssa.BasicBlock, in ssa.Instruction) int {
	for i, x := range b.Instrs {
		if x == in {
			return i
		}
	}
	return -1
}

// reaches: block b can reach block t along CFG edges.
func reaches(b, t *ssa.BasicBlock) bool {
	seen := map[*ssa.BasicBlock]bool{}
	var walk func(x *ssa.BasicBlock) bool
	walk = func(x *ssa.BasicBlock) bool {
		if x == t {
			return true
		}
		if seen[x] {
			return false
		}
		seen[x] = true
		for _, s := range x.Succs {
			if walk(s) {
				return true
			}
		}
		return false
	}
	return walk(b)
}

func (f *frame) panicAt(st *State, in *ssa.Panic) {
	vc := f.vc
	if vc.panicSink != nil {
		// panics are control flow in this function: the deferred calls decide
		pv := "(mk-iface 1 0)"
		if t, ok := vc.val(st, in.X).(*Term); ok && t.Sort == SIface {
			pv = t.S
		}
		vc.raise(st, pv)
		return
	}
	if vc.contract != nil && vc.contract.MayPanic {
		st.dead = true // panics are the function's way of reporting errors
		return
	}
	if f.isTop && f.c != nil && (f.c.PanicsIf != nil || f.c.EnsuresPanic) {
		if f.c.PanicsIf != nil {
			sc := f.specCtx(vc.oldState, vc.oldState)
			f.bindParams(sc)
			g := sc.evalBool(f.c.PanicsIf.Expr)
			vc.oblige(st, "panic.only_if", g, "explicit panic only when: "+f.c.PanicsIf.Src, in.Pos(), false)
		}
		st.dead = true
		return
	}
	msg := "explicit panic unreachable"
	if c, ok := in.X.(*ssa.MakeInterface); ok {
		if k, ok := c.X.(*ssa.Const); ok {
			msg += ": " + k.Value.String()
		}
	}
	vc.oblige(st, "panic", "false", msg, in.Pos(), false)
	st.dead = true
}

// flow propagates the state to successor edges.
func (f *frame) flow(n *vnode, st *State, conds []string) {
	vc := f.vc
	for i, e := range n.out {
		c := and(st.reach, conds[i])
		switch e.kind {
		case 0, 1:
			e.cond = c
			e.ok = true
		case 2:
			f.backEdge(e, st, c)
		case 3:
			tmp := st.clone()
			tmp.reach = c
			vc.oblige(tmp, "unwind."+f.loopName(e.loop), "false",
				fmt.Sprintf("loop exits within %d iterations", e.loop.spec.Unroll), e.loop.pos, false)
		}
	}
}

// ghostResults evaluates the contract's ghost results at a return site; a
// ghost whose expression cannot be evaluated there (local not in scope on
// this path) is unconstrained on this path.
func (f *frame) ghostResults(st *State) Val {
	vc := f.vc
	out := Tuple{}
	for _, g := range f.c.GhostRes {
		sc := f.specCtx(st, vc.oldState)
		sc.bound = map[string]*Term{}
		sc.locals = st.names
		f.bindParams(sc)
		s, t := sc.quantSort(g.Type)
		var v *Term
		func() {
			defer func() {
				if r := recover(); r != nil {
					if _, ok := r.(unsupported); ok {
						v = nil
						return
					}
					panic(r)
				}
			}()
			saved := len(vc.cmds)
			x := sc.solo(sc.evalTerm(g.Expr))
			if x.Sort != s {
				vc.cmds = vc.cmds[:saved]
				unsup("ghost %s: sort %s, expected %s", g.Name, x.Sort, s)
			}
			v = &Term{x.S, s, t}
		}()
		if v == nil {
			v = vc.freshSort("gh_"+g.Name, s)
			v.T = t
			vc.assume(vc.typingFact(v))
		}
		out = append(out, vc.define("gh", v))
	}
	return out
}

// bindHeaderNames binds source names that refer to phis of a loop header
// (range loops name their phi "rangeint.iter"; the source name only appears
// in a DebugRef inside the header block).
func bindHeaderNames(st *State, header *ssa.BasicBlock) {
	// `for j := range slice`: SSA keeps a hidden counter (phi, starts at -1) and
	// computes j = counter + 1 in the header; the source name j only appears in
	// the body. At the loop head j denotes the index about to be tested.
	for _, in := range header.Instrs {
		b, ok := in.(*ssa.BinOp)
		if !ok || b.Op != token.ADD {
			continue
		}
		phi, ok := b.X.(*ssa.Phi)
		c, ok2 := b.Y.(*ssa.Const)
		if !ok || !ok2 || phi.Block() != header || phi.Comment != "rangeindex" || c.Value == nil || c.Value.ExactString() != "1" {
			continue
		}
		pv, ok := st.env[phi].(*Term)
		if !ok {
			continue
		}
		s := "(+ " + pv.S + " 1)"
		if strings.HasPrefix(pv.Sort, "(_ BitVec") {
			s = "(bvadd " + pv.S + " (_ bv1 " + strings.TrimSuffix(strings.TrimPrefix(pv.Sort, "(_ BitVec "), ")") + "))"
		}
		// (`for _, x := range s` has no source name for the index: the hidden
		// counter itself is available as "rangeindex" = index of the element
		// processed last, -1 at entry)
		for _, ref := range *b.Referrers() {
			d, ok := ref.(*ssa.DebugRef)
			if !ok || d.IsAddr {
				continue
			}
			// only the range key itself (its defining occurrence), not another
			// variable that is assigned the index (`last = i`)
			if id, ok := d.Expr.(*ast.Ident); ok && d.Object() != nil && d.Object().Pos() == id.Pos() {
				st.names[id.Name] = &Term{s, pv.Sort, pv.T}
			}
		}
	}
	for _, in := range header.Instrs {
		d, ok := in.(*ssa.DebugRef)
		if !ok || d.IsAddr {
			continue
		}
		phi, ok := d.X.(*ssa.Phi)
		if !ok || phi.Block() != header {
			continue
		}
		if id, ok := d.Expr.(*ast.Ident); ok {
			if _, isVar := d.Object().(*types.Var); isVar {
				if v, ok := st.env[phi]; ok {
					st.names[id.Name] = v
				}
			}
		}
	}
}

// storeRoot finds the value whose reference designates the heap object a
// store through addr writes (mirrors staticHeapVars).
func storeRoot(addr ssa.Value) (ssa.Value, bool) {
	switch a := addr.(type) {
	case *ssa.IndexAddr:
		switch a.X.Type().Underlying().(type) {
		case *types.Slice:
			return a.X, true
		case *types.Pointer:
			if interior(a.X) {
				return storeRoot(a.X)
			}
			return a.X, false
		}
	case *ssa.FieldAddr:
		if interior(a.X) {
			return storeRoot(a.X)
		}
		return a.X, false
	}
	return addr, false
}

// stableAt: the value is available (and the same) at the header of loop l.
func stableAt(v ssa.Value, l *loopInfo) bool {
	switch x := v.(type) {
	case *ssa.Parameter, *ssa.Global, *ssa.Const, *ssa.FreeVar:
		return true
	case *ssa.FieldAddr:
		if in, ok := v.(ssa.Instruction); ok && !l.body[in.Block()] {
			return true
		}
		return stableAt(x.X, l)
	case ssa.Instruction:
		return !l.body[x.Block()]
	}
	return false
}

// refOfBase evaluates the object reference designated by a stable base value.
func (vc *VC) refOfBase(st *State, v ssa.Value, isSlice bool) (string, bool) {
	if x, ok := st.env[v]; ok {
		t, ok := x.(*Term)
		if !ok {
			return "", false
		}
		if isSlice {
			return "(s-ref " + t.S + ")", true
		}
		return t.S, true
	}
	switch a := v.(type) {
	case *ssa.Global:
		return vc.global(a).S, true
	case *ssa.FieldAddr:
		r, ok := vc.refOfBase(st, a.X, false)
		if !ok {
			return "", false
		}
		s, _ := structOf(a.X.Type().Underlying().(*types.Pointer).Elem())
		ft := s.Field(a.Field).Type()
		_, isS := structOf(ft)
		_, isA := arrayOf(ft)
		if isS || isA {
			return subRef(r, a.Field), true
		}
		return "", false
	}
	return "", false
}
