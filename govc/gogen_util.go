package main

func flattenAnd(e CExpr) []CExpr {
	if e == nil {
		return nil
	}
	if b, ok := e.(*CBin); ok && b.Op == "&&" {
		return append(flattenAnd(b.X), flattenAnd(b.Y)...)
	}
	return []CExpr{e}
}
