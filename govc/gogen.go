package main

// Compilation of contract expressions to executable Go (the replay oracle).
// Mathematical integers become Go int in "int" mode; in "bv" mode the Go
// types of the operands are kept (wrapping arithmetic is then identical).

import (
	"fmt"
	"go/types"
	"strings"
)

type goVal struct {
	code string
	t    types.Type // nil: untyped literal or spec-level int
	lit  bool
}

type goGen struct {
	eng     *Engine
	pkg     *types.Package
	mode    string
	absStr  bool
	vars    map[string]goVal
	oldVars map[string]goVal // parameter snapshots for old()
	inOld   bool
	rend    *goRender
	depth   int
	nq      int
}

type goUnsup struct{ msg string }

func gounsup(format string, a ...any) { panic(goUnsup{fmt.Sprintf(format, a...)}) }

func (g *goGen) isInt(v goVal) bool { return v.t == nil || isIntType(v.t) }

// num converts an integer-valued expression to the arithmetic domain.
func (g *goGen) num(v goVal) string {
	if v.lit || g.mode == "bv" {
		return v.code
	}
	if v.t != nil && isIntType(v.t) {
		if b, ok := v.t.Underlying().(*types.Basic); ok && b.Kind() == types.Int && !strings.HasPrefix(v.code, "int(") {
			return v.code
		}
		return "int(" + v.code + ")"
	}
	return v.code
}

// tryBool compiles a clause; unsupported conjuncts in positive position are
// dropped (treated as true). ok=false if nothing could be compiled.
func (g *goGen) clause(e CExpr) (code string, ok bool) {
	defer func() {
		if r := recover(); r != nil {
			if _, is := r.(goUnsup); is {
				code, ok = "true", false
				return
			}
			panic(r)
		}
	}()
	return g.boolPos(e), true
}

func (g *goGen) boolPos(e CExpr) string {
	if b, ok := e.(*CBin); ok && b.Op == "&&" {
		l, lok := g.tryPos(b.X)
		r, rok := g.tryPos(b.Y)
		if !lok && !rok {
			gounsup("no compilable conjunct")
		}
		return "(" + l + " && " + r + ")"
	}
	if b, ok := e.(*CBin); ok && b.Op == "==>" {
		a := g.bool(b.X)
		c, cok := g.tryPos(b.Y)
		if !cok {
			gounsup("consequent not compilable")
		}
		return "(!(" + a + ") || " + c + ")"
	}
	return g.bool(e)
}

func (g *goGen) tryPos(e CExpr) (code string, ok bool) {
	defer func() {
		if r := recover(); r != nil {
			if _, is := r.(goUnsup); is {
				code, ok = "true", false
				return
			}
			panic(r)
		}
	}()
	return g.boolPos(e), true
}

func (g *goGen) bool(e CExpr) string {
	v := g.expr(e)
	if v.t != nil && !isBoolType(v.t) {
		gounsup("boolean expected: %s", e)
	}
	return v.code
}

var boolT = types.Typ[types.Bool]
var intT = types.Typ[types.Int]

func (g *goGen) expr(e CExpr) goVal {
	switch e := e.(type) {
	case *CInt:
		return goVal{code: e.V, lit: true}
	case *CBool:
		return goVal{code: fmt.Sprint(e.V), t: boolT}
	case *CStr:
		return goVal{code: fmt.Sprintf("%q", e.V), t: types.Typ[types.String]}
	case *CIdent:
		return g.ident(e.Name)
	case *CUn:
		x := g.expr(e.X)
		switch e.Op {
		case "!":
			return goVal{code: "!(" + x.code + ")", t: boolT}
		case "-":
			if x.lit {
				return goVal{code: "(-" + x.code + ")", lit: true}
			}
			return goVal{code: "(-" + g.num(x) + ")", t: g.numT(x)}
		case "^":
			return goVal{code: "(^" + g.num(x) + ")", t: g.numT(x)}
		}
	case *CBin:
		return g.binary(e)
	case *CCond:
		c := g.bool(e.C)
		a, b := g.expr(e.A), g.expr(e.B)
		ty := "int"
		var rt types.Type = intT
		switch {
		case a.t != nil && isBoolType(a.t):
			ty, rt = "bool", boolT
		case a.t != nil && isStringType(a.t):
			ty, rt = g.rend.typeStr(a.t), a.t
		case g.mode == "bv":
			t := a.t
			if t == nil {
				t = b.t
			}
			if t == nil {
				t = types.Typ[types.Int64]
			}
			ty, rt = g.rend.typeStr(t), t
			return goVal{code: fmt.Sprintf("func() %s { if %s { return %s(%s) }; return %s(%s) }()", ty, c, ty, a.code, ty, b.code), t: rt}
		}
		ac, bc := a.code, b.code
		if ty == "int" {
			ac, bc = g.num(a), g.num(b)
		}
		return goVal{code: fmt.Sprintf("func() %s { if %s { return %s }; return %s }()", ty, c, ac, bc), t: rt}
	case *CQuant:
		return g.quant(e)
	case *CIndex:
		x := g.expr(e.X)
		i := g.expr(e.I)
		if x.t == nil {
			gounsup("index of untyped")
		}
		var et types.Type
		switch u := types.Unalias(x.t).Underlying().(type) {
		case *types.Slice:
			et = u.Elem()
		case *types.Array:
			et = u.Elem()
		case *types.Pointer:
			a, ok := arrayOf(u.Elem())
			if !ok {
				gounsup("index of pointer")
			}
			et = a.Elem()
		case *types.Basic:
			if g.absStr {
				gounsup("index of abstract string")
			}
			et = types.Typ[types.Uint8]
		default:
			gounsup("index of %s", x.t)
		}
		return goVal{code: x.code + "[" + g.idx(i) + "]", t: et}
	case *CSlice:
		x := g.expr(e.X)
		lo, hi := "", ""
		if e.Lo != nil {
			lo = g.idx(g.expr(e.Lo))
		}
		if e.Hi != nil {
			hi = g.idx(g.expr(e.Hi))
		}
		return goVal{code: x.code + "[" + lo + ":" + hi + "]", t: x.t}
	case *CSel:
		if id, ok := e.X.(*CIdent); ok {
			if _, isVar := g.lookup(id.Name); !isVar {
				for _, p := range g.pkg.Imports() {
					if p.Name() == id.Name {
						obj := p.Scope().Lookup(e.F)
						if obj == nil {
							gounsup("unknown %s.%s", id.Name, e.F)
						}
						g.rend.imports[p.Path()] = p.Name()
						return goVal{code: id.Name + "." + e.F, t: obj.Type()}
					}
				}
			}
		}
		x := g.expr(e.X)
		if x.t == nil {
			gounsup("field of untyped")
		}
		t := types.Unalias(x.t)
		if p, ok := t.Underlying().(*types.Pointer); ok {
			t = p.Elem()
		}
		obj, _, _ := types.LookupFieldOrMethod(t, true, g.pkg, e.F)
		v, ok := obj.(*types.Var)
		if !ok {
			gounsup("no field %s", e.F)
		}
		return goVal{code: x.code + "." + e.F, t: v.Type()}
	case *CCall:
		return g.call(e)
	}
	gounsup("cannot compile %s", e)
	return goVal{}
}

func (g *goGen) idx(i goVal) string {
	if i.lit {
		return i.code
	}
	if g.mode == "bv" {
		return "int(" + i.code + ")"
	}
	return g.num(i)
}

func (g *goGen) numT(v goVal) types.Type {
	if g.mode == "bv" {
		return v.t
	}
	return intT
}

func (g *goGen) lookup(name string) (goVal, bool) {
	if g.inOld {
		if v, ok := g.oldVars[name]; ok {
			return v, true
		}
	}
	v, ok := g.vars[name]
	return v, ok
}

func (g *goGen) ident(name string) goVal {
	if v, ok := g.lookup(name); ok {
		return v
	}
	if name == "nil" {
		return goVal{code: "nil"}
	}
	if obj := g.pkg.Scope().Lookup(name); obj != nil {
		switch o := obj.(type) {
		case *types.Const:
			if isIntType(o.Type()) {
				return goVal{code: o.Val().ExactString(), lit: true}
			}
			return goVal{code: name, t: o.Type()}
		case *types.Var:
			return goVal{code: name, t: o.Type()}
		}
	}
	gounsup("unknown identifier %s", name)
	return goVal{}
}

func (g *goGen) binary(e *CBin) goVal {
	switch e.Op {
	case "&&":
		return goVal{code: "(" + g.bool(e.X) + " && " + g.bool(e.Y) + ")", t: boolT}
	case "||":
		return goVal{code: "(" + g.bool(e.X) + " || " + g.bool(e.Y) + ")", t: boolT}
	case "==>":
		return goVal{code: "(!(" + g.bool(e.X) + ") || " + g.bool(e.Y) + ")", t: boolT}
	case "<==>":
		return goVal{code: "((" + g.bool(e.X) + ") == (" + g.bool(e.Y) + "))", t: boolT}
	}
	x, y := g.expr(e.X), g.expr(e.Y)
	nonNum := func(v goVal) bool { return v.t != nil && !isIntType(v.t) }
	switch e.Op {
	case "==", "!=", "<", "<=", ">", ">=":
		if nonNum(x) || nonNum(y) {
			if (x.t != nil && isStringType(x.t)) || (y.t != nil && isStringType(y.t)) {
				return goVal{code: "(string(" + x.code + ") " + e.Op + " string(" + y.code + "))", t: boolT}
			}
			if e.Op != "==" && e.Op != "!=" {
				gounsup("ordering on %s", e)
			}
			if x.t != nil {
				if _, isSl := types.Unalias(x.t).Underlying().(*types.Slice); isSl && y.code != "nil" {
					gounsup("slice equality")
				}
			}
			return goVal{code: "(" + x.code + " " + e.Op + " " + y.code + ")", t: boolT}
		}
		if x.code == "nil" || y.code == "nil" {
			return goVal{code: "(" + x.code + " " + e.Op + " " + y.code + ")", t: boolT}
		}
		a, b := g.pair(x, y)
		return goVal{code: "(" + a + " " + e.Op + " " + b + ")", t: boolT}
	case "+", "-", "*", "/", "%", "&", "|", "^", "&^":
		a, b := g.pair(x, y)
		rt := g.numT(x)
		if x.lit && g.mode == "bv" {
			rt = y.t
		}
		if x.lit && y.lit {
			return goVal{code: "(" + a + " " + e.Op + " " + b + ")", lit: true}
		}
		return goVal{code: "(" + a + " " + e.Op + " " + b + ")", t: rt}
	case "<<", ">>":
		cnt := y.code
		if !y.lit {
			cnt = "uint(" + y.code + ")"
		}
		if x.lit && y.lit {
			return goVal{code: "(" + x.code + " " + e.Op + " " + cnt + ")", lit: true}
		}
		xc := g.num(x)
		if x.lit {
			if g.mode == "bv" {
				xc = "int64(" + x.code + ")"
			} else {
				xc = "int(" + x.code + ")"
			}
		}
		return goVal{code: "(" + xc + " " + e.Op + " " + cnt + ")", t: g.numT(x)}
	}
	gounsup("operator %s", e.Op)
	return goVal{}
}

// pair renders two integer operands in a common Go type.
func (g *goGen) pair(x, y goVal) (string, string) {
	if g.mode != "bv" {
		return g.num(x), g.num(y)
	}
	switch {
	case x.lit || y.lit:
		return x.code, y.code
	case x.t != nil && y.t != nil && !types.Identical(x.t, y.t):
		// widen the narrower operand
		bx, _ := intInfo(x.t)
		by, _ := intInfo(y.t)
		if bx >= by {
			return x.code, g.rend.typeStr(x.t) + "(" + y.code + ")"
		}
		return g.rend.typeStr(y.t) + "(" + x.code + ")", y.code
	}
	return x.code, y.code
}

func (g *goGen) quant(e *CQuant) goVal {
	// bounds from the guard
	body := e.Body
	var guard CExpr
	if b, ok := body.(*CBin); ok && ((e.Forall && b.Op == "==>") || (!e.Forall && b.Op == "&&")) {
		guard = b.X
	} else if !e.Forall {
		guard = body
	}
	saved := map[string]goVal{}
	var heads []string
	// ranges: first from bounds that do not mention sibling variables, then
	// through sibling relations (i < j && j < n gives i the range of j)
	los, his := map[string]string{}, map[string]string{}
	sib := map[string]bool{}
	for _, v := range e.Vars {
		sib[v.Name] = true
		if old, ok := g.vars[v.Name]; ok {
			saved[v.Name] = old
			delete(g.vars, v.Name)
		}
	}
	for _, v := range e.Vars {
		switch v.Type {
		case "", "int":
			los[v.Name], his[v.Name] = g.findBounds(guard, v.Name)
		case "byte", "uint8":
			los[v.Name], his[v.Name] = "0", "256"
		default:
			gounsup("quantifier over %s", v.Type)
		}
	}
	for round := 0; round < 3; round++ {
		for _, c := range flattenAnd(guard) {
			b, ok := c.(*CBin)
			if !ok {
				continue
			}
			x, xok := b.X.(*CIdent)
			y, yok := b.Y.(*CIdent)
			if !xok || !yok || !sib[x.Name] || !sib[y.Name] {
				continue
			}
			small, big := x.Name, y.Name
			switch b.Op {
			case "<", "<=":
			case ">", ">=":
				small, big = y.Name, x.Name
			default:
				continue
			}
			if his[small] == "" && his[big] != "" {
				his[small] = his[big]
			}
			if los[big] == "" && los[small] != "" {
				los[big] = los[small]
			}
		}
	}
	for _, v := range e.Vars {
		g.nq++
		name := fmt.Sprintf("%s_%d", v.Name, g.nq)
		lo, hi := los[v.Name], his[v.Name]
		if lo == "" || hi == "" {
			gounsup("no finite range for quantified %s", v.Name)
		}
		g.vars[v.Name] = goVal{code: name, t: intT}
		heads = append(heads, fmt.Sprintf("for %s := %s; %s < %s; %s++ {", name, lo, name, hi, name))
	}
	b := g.bool(e.Body)
	for _, v := range e.Vars {
		delete(g.vars, v.Name)
		if old, ok := saved[v.Name]; ok {
			g.vars[v.Name] = old
		}
	}
	var sb strings.Builder
	sb.WriteString("func() bool { ")
	for _, h := range heads {
		sb.WriteString(h + " ")
	}
	if e.Forall {
		sb.WriteString("if !(" + b + ") { return false } ")
	} else {
		sb.WriteString("if " + b + " { return true } ")
	}
	sb.WriteString(strings.Repeat("}; ", len(heads)))
	if e.Forall {
		sb.WriteString("return true }()")
	} else {
		sb.WriteString("return false }()")
	}
	return goVal{code: sb.String(), t: boolT}
}

// findBounds looks for lo <= k / lo < k and k < hi / k <= hi among the
// conjuncts of the guard. Bounds must not mention later-bound variables.
func (g *goGen) findBounds(guard CExpr, name string) (lo, hi string) {
	var conj []CExpr
	var flat func(e CExpr)
	flat = func(e CExpr) {
		if b, ok := e.(*CBin); ok && b.Op == "&&" {
			flat(b.X)
			flat(b.Y)
			return
		}
		if e != nil {
			conj = append(conj, e)
		}
	}
	flat(guard)
	isVar := func(e CExpr) bool { id, ok := e.(*CIdent); return ok && id.Name == name }
	try := func(e CExpr) (s string, ok bool) {
		defer func() {
			if r := recover(); r != nil {
				if _, is := r.(goUnsup); is {
					s, ok = "", false
					return
				}
				panic(r)
			}
		}()
		v := g.expr(e)
		if g.mode == "bv" && !v.lit {
			return "int(" + v.code + ")", true
		}
		return g.num(v), true
	}
	for _, c := range conj {
		b, ok := c.(*CBin)
		if !ok {
			continue
		}
		switch {
		case (b.Op == "<=" || b.Op == "<") && isVar(b.Y) && lo == "":
			if s, ok := try(b.X); ok {
				lo = s
				if b.Op == "<" {
					lo = "(" + s + ")+1"
				}
			}
		case (b.Op == ">=" || b.Op == ">") && isVar(b.X) && lo == "":
			if s, ok := try(b.Y); ok {
				lo = s
				if b.Op == ">" {
					lo = "(" + s + ")+1"
				}
			}
		case (b.Op == "<" || b.Op == "<=") && isVar(b.X) && hi == "":
			if s, ok := try(b.Y); ok {
				hi = s
				if b.Op == "<=" {
					hi = "(" + s + ")+1"
				}
			}
		case (b.Op == ">" || b.Op == ">=") && isVar(b.Y) && hi == "":
			if s, ok := try(b.X); ok {
				hi = s
				if b.Op == ">=" {
					hi = "(" + s + ")+1"
				}
			}
		}
	}
	return
}

func (g *goGen) call(e *CCall) goVal {
	arg := func(i int) goVal { return g.expr(e.Args[i]) }
	switch e.F {
	case "old":
		was := g.inOld
		g.inOld = true
		defer func() { g.inOld = was }()
		return g.expr(e.Args[0])
	case "len", "cap":
		x := arg(0)
		if g.absStr && x.t != nil && isStringType(x.t) {
			gounsup("len of abstract string")
		}
		return goVal{code: e.F + "(" + x.code + ")", t: intT}
	case "min", "max":
		a, b := g.pair(arg(0), arg(1))
		return goVal{code: e.F + "(" + a + ", " + b + ")", t: g.numT(arg(0))}
	case "abs":
		a := g.num(arg(0))
		return goVal{code: "func() int { if " + a + " < 0 { return -(" + a + ") }; return " + a + " }()", t: intT}
	case "int", "int64", "uint64", "uint", "byte", "uint8", "uint16", "uint32", "int32", "int16", "int8":
		x := arg(0)
		if g.mode == "bv" {
			bt := map[string]types.BasicKind{"int": types.Int, "int64": types.Int64, "uint64": types.Uint64, "uint": types.Uint, "byte": types.Uint8,
				"uint8": types.Uint8, "uint16": types.Uint16, "uint32": types.Uint32, "int32": types.Int32, "int16": types.Int16, "int8": types.Int8}[e.F]
			return goVal{code: e.F + "(" + x.code + ")", t: types.Typ[bt]}
		}
		// int mode: conversion = reduction to the target range
		return goVal{code: "int(" + e.F + "(" + g.num(x) + "))", t: intT}
	case "string":
		x := arg(0)
		return goVal{code: "string(" + x.code + ")", t: types.Typ[types.String]}
	case "div", "mod":
		a, b := g.num(arg(0)), g.num(arg(1))
		if e.F == "div" {
			return goVal{code: "govcEDiv(" + a + ", " + b + ")", t: intT}
		}
		return goVal{code: "govcEMod(" + a + ", " + b + ")", t: intT}
	case "ref", "off", "fresh", "update", "typeis", "unbox", "deref":
		gounsup("%s is not executable", e.F)
	}
	if sf := g.eng.specFn(g.pkg, e.F); sf != nil {
		if len(sf.Params) != len(e.Args) {
			gounsup("arity of %s", e.F)
		}
		g.depth++
		defer func() { g.depth-- }()
		if g.depth > 20 {
			gounsup("spec recursion")
		}
		savedVars, savedOld := g.vars, g.oldVars
		nv := map[string]goVal{}
		no := map[string]goVal{}
		for i, p := range sf.Params {
			v := g.expr(e.Args[i])
			nv[p.Name] = v
			// the same argument evaluated in the old state
			was := g.inOld
			g.inOld = true
			func() {
				defer func() {
					if r := recover(); r != nil {
						if _, is := r.(goUnsup); !is {
							panic(r)
						}
					}
				}()
				no[p.Name] = g.expr(e.Args[i])
			}()
			g.inOld = was
		}
		// quantified variables of enclosing scopes stay visible by their Go names only through args
		g.vars, g.oldVars = nv, no
		defer func() { g.vars, g.oldVars = savedVars, savedOld }()
		r := g.expr(sf.Body)
		if sf.Ret == "bool" {
			r.t = boolT
		}
		return r
	}
	// a real function of the package (lemmas): call it
	if obj, ok := g.pkg.Scope().Lookup(e.F).(*types.Func); ok {
		sig := obj.Type().(*types.Signature)
		var as []string
		for i := range e.Args {
			a := arg(i)
			if i < sig.Params().Len() {
				as = append(as, g.rend.typeStr(sig.Params().At(i).Type())+"("+a.code+")")
			} else {
				as = append(as, a.code)
			}
		}
		if sig.Results().Len() == 1 {
			return goVal{code: e.F + "(" + strings.Join(as, ", ") + ")", t: sig.Results().At(0).Type()}
		}
		gounsup("multi-result call %s", e.F)
	}
	gounsup("unknown function %s", e.F)
	return goVal{}
}
