package main

// Compilation of contract expressions to executable Go (the replay oracle).
// In "int" mode integers are mathematical: every integer expression is
// evaluated with math/big. In "bv" mode the Go types of the operands are kept
// (wrapping arithmetic is then identical to the verified semantics).

import (
	"fmt"
	"go/types"
	"strings"
)

type goVal struct {
	code string
	t    types.Type // nil: untyped literal or big integer
	lit  bool
	big  bool
}

type goGen struct {
	eng     *Engine
	pkg     *types.Package
	mode    string
	absStr  bool
	vars    map[string]goVal
	oldVars map[string]goVal // parameter snapshots for old()
	inOld   bool
	rend    *goRender
	depth   int
	nq      int
}

type goUnsup struct{ msg string }

func gounsup(format string, a ...any) { panic(goUnsup{fmt.Sprintf(format, a...)}) }

const goHelpers = `
func govcL(s string) *big.Int { n, _ := new(big.Int).SetString(s, 10); return n }
func govcB(x int64) *big.Int  { return big.NewInt(x) }
func govcU(x uint64) *big.Int { return new(big.Int).SetUint64(x) }
func govcI(x *big.Int) int {
	if !x.IsInt64() {
		panic("index out of int range")
	}
	return int(x.Int64())
}
func govcCmp(a, b *big.Int) int        { return a.Cmp(b) }
func govcAdd(a, b *big.Int) *big.Int    { return new(big.Int).Add(a, b) }
func govcSub(a, b *big.Int) *big.Int    { return new(big.Int).Sub(a, b) }
func govcMul(a, b *big.Int) *big.Int    { return new(big.Int).Mul(a, b) }
func govcQuo(a, b *big.Int) *big.Int    { return new(big.Int).Quo(a, b) }
func govcRem(a, b *big.Int) *big.Int    { return new(big.Int).Rem(a, b) }
func govcEDiv(a, b *big.Int) *big.Int   { return new(big.Int).Div(a, b) }
func govcEMod(a, b *big.Int) *big.Int   { return new(big.Int).Mod(a, b) }
func govcShl(a *big.Int, n int) *big.Int { return new(big.Int).Lsh(a, uint(n)) }
func govcShr(a *big.Int, n int) *big.Int { return new(big.Int).Rsh(a, uint(n)) }
func govcAnd(a, b *big.Int) *big.Int    { return new(big.Int).And(a, b) }
func govcOr(a, b *big.Int) *big.Int     { return new(big.Int).Or(a, b) }
func govcXor(a, b *big.Int) *big.Int    { return new(big.Int).Xor(a, b) }
func govcAndNot(a, b *big.Int) *big.Int { return new(big.Int).AndNot(a, b) }
func govcNeg(a *big.Int) *big.Int       { return new(big.Int).Neg(a) }
func govcNot(a *big.Int) *big.Int       { return new(big.Int).Not(a) }
func govcAbs(a *big.Int) *big.Int       { return new(big.Int).Abs(a) }
func govcMin(a, b *big.Int) *big.Int {
	if a.Cmp(b) < 0 {
		return a
	}
	return b
}
func govcMax(a, b *big.Int) *big.Int {
	if a.Cmp(b) > 0 {
		return a
	}
	return b
}
func govcWrap(x *big.Int, bits uint, signed bool) *big.Int {
	m := new(big.Int).Lsh(big.NewInt(1), bits)
	r := new(big.Int).Mod(x, m)
	if signed && r.Bit(int(bits-1)) == 1 {
		r.Sub(r, m)
	}
	return r
}
var _ = []any{govcL, govcB, govcU, govcI, govcCmp, govcAdd, govcSub, govcMul, govcQuo, govcRem, govcEDiv, govcEMod, govcShl, govcShr,
	govcAnd, govcOr, govcXor, govcAndNot, govcNeg, govcNot, govcAbs, govcMin, govcMax, govcWrap}
`

func (g *goGen) bigMode() bool { return g.mode != "bv" }

func (g *goGen) isInt(v goVal) bool { return v.big || v.lit || (v.t != nil && isIntType(v.t)) }

// num renders an integer-valued expression in the arithmetic domain.
func (g *goGen) num(v goVal) string {
	if !g.bigMode() {
		return v.code
	}
	switch {
	case v.big:
		return v.code
	case v.lit:
		return "govcL(\"" + strings.Trim(v.code, "()") + "\")"
	case v.t != nil && isIntType(v.t):
		_, signed := intInfo(v.t)
		if signed {
			return "govcB(int64(" + v.code + "))"
		}
		return "govcU(uint64(" + v.code + "))"
	}
	gounsup("integer expected: %s", v.code)
	return ""
}

func (g *goGen) clause(e CExpr) (code string, ok bool) {
	defer func() {
		if r := recover(); r != nil {
			if _, is := r.(goUnsup); is {
				code, ok = "true", false
				return
			}
			panic(r)
		}
	}()
	return g.boolPos(e), true
}

func (g *goGen) boolPos(e CExpr) string {
	if b, ok := e.(*CBin); ok && b.Op == "&&" {
		l, lok := g.tryPos(b.X)
		r, rok := g.tryPos(b.Y)
		if !lok && !rok {
			gounsup("no compilable conjunct")
		}
		return "(" + l + " && " + r + ")"
	}
	if b, ok := e.(*CBin); ok && b.Op == "==>" {
		a := g.bool(b.X)
		c, cok := g.tryPos(b.Y)
		if !cok {
			gounsup("consequent not compilable")
		}
		return "(!(" + a + ") || " + c + ")"
	}
	return g.bool(e)
}

func (g *goGen) tryPos(e CExpr) (code string, ok bool) {
	defer func() {
		if r := recover(); r != nil {
			if _, is := r.(goUnsup); is {
				code, ok = "true", false
				return
			}
			panic(r)
		}
	}()
	return g.boolPos(e), true
}

func (g *goGen) bool(e CExpr) string {
	v := g.expr(e)
	if v.big || v.lit || (v.t != nil && !isBoolType(v.t)) {
		gounsup("boolean expected: %s", e)
	}
	return v.code
}

var boolT = types.Typ[types.Bool]
var intT = types.Typ[types.Int]

func (g *goGen) expr(e CExpr) goVal {
	switch e := e.(type) {
	case *CInt:
		return goVal{code: e.V, lit: true}
	case *CBool:
		return goVal{code: fmt.Sprint(e.V), t: boolT}
	case *CStr:
		return goVal{code: fmt.Sprintf("%q", e.V), t: types.Typ[types.String]}
	case *CIdent:
		return g.ident(e.Name)
	case *CUn:
		x := g.expr(e.X)
		switch e.Op {
		case "!":
			return goVal{code: "!(" + x.code + ")", t: boolT}
		case "-":
			if x.lit {
				return goVal{code: "-" + strings.Trim(x.code, "()"), lit: true}
			}
			if g.bigMode() {
				return goVal{code: "govcNeg(" + g.num(x) + ")", big: true}
			}
			return goVal{code: "(-" + x.code + ")", t: x.t}
		case "^":
			if g.bigMode() {
				return goVal{code: "govcNot(" + g.num(x) + ")", big: true}
			}
			return goVal{code: "(^" + x.code + ")", t: x.t}
		}
	case *CBin:
		return g.binary(e)
	case *CCond:
		c := g.bool(e.C)
		a, b := g.expr(e.A), g.expr(e.B)
		switch {
		case a.t != nil && isBoolType(a.t):
			return goVal{code: fmt.Sprintf("func() bool { if %s { return %s }; return %s }()", c, a.code, b.code), t: boolT}
		case a.t != nil && isStringType(a.t):
			ty := g.rend.typeStr(a.t)
			return goVal{code: fmt.Sprintf("func() %s { if %s { return %s }; return %s }()", ty, c, a.code, b.code), t: a.t}
		case g.bigMode():
			return goVal{code: fmt.Sprintf("func() *big.Int { if %s { return %s }; return %s }()", c, g.num(a), g.num(b)), big: true}
		}
		t := a.t
		if t == nil {
			t = b.t
		}
		if t == nil {
			t = types.Typ[types.Int64]
		}
		ty := g.rend.typeStr(t)
		return goVal{code: fmt.Sprintf("func() %s { if %s { return %s(%s) }; return %s(%s) }()", ty, c, ty, a.code, ty, b.code), t: t}
	case *CQuant:
		return g.quant(e)
	case *CIndex:
		x := g.expr(e.X)
		i := g.expr(e.I)
		if x.t == nil {
			gounsup("index of untyped")
		}
		var et types.Type
		switch u := types.Unalias(x.t).Underlying().(type) {
		case *types.Slice:
			et = u.Elem()
		case *types.Array:
			et = u.Elem()
		case *types.Pointer:
			a, ok := arrayOf(u.Elem())
			if !ok {
				gounsup("index of pointer")
			}
			et = a.Elem()
		case *types.Basic:
			if g.absStr {
				gounsup("index of abstract string")
			}
			et = types.Typ[types.Uint8]
		default:
			gounsup("index of %s", x.t)
		}
		return goVal{code: x.code + "[" + g.idx(i) + "]", t: et}
	case *CSlice:
		x := g.expr(e.X)
		lo, hi := "", ""
		if e.Lo != nil {
			lo = g.idx(g.expr(e.Lo))
		}
		if e.Hi != nil {
			hi = g.idx(g.expr(e.Hi))
		}
		return goVal{code: x.code + "[" + lo + ":" + hi + "]", t: x.t}
	case *CSel:
		if id, ok := e.X.(*CIdent); ok {
			if _, isVar := g.lookup(id.Name); !isVar {
				for _, p := range g.pkg.Imports() {
					if p.Name() == id.Name {
						obj := p.Scope().Lookup(e.F)
						if obj == nil {
							gounsup("unknown %s.%s", id.Name, e.F)
						}
						g.rend.imports[p.Path()] = p.Name()
						return goVal{code: id.Name + "." + e.F, t: obj.Type()}
					}
				}
			}
		}
		x := g.expr(e.X)
		if x.t == nil {
			gounsup("field of untyped")
		}
		t := types.Unalias(x.t)
		if p, ok := t.Underlying().(*types.Pointer); ok {
			t = p.Elem()
		}
		obj, _, _ := types.LookupFieldOrMethod(t, true, g.pkg, e.F)
		v, ok := obj.(*types.Var)
		if !ok {
			// unexported field of a struct type of another package: read it
			// through a mirror struct of identical layout
			if nt, isN := t.(*types.Named); isN && nt.Obj().Pkg() != nil && nt.Obj().Pkg() != g.pkg {
				if s, isS := structOf(t); isS {
					for i := 0; i < s.NumFields(); i++ {
						if f := s.Field(i); f.Name() == e.F && !f.Embedded() {
							xc := x.code
							if _, isPtr := types.Unalias(x.t).Underlying().(*types.Pointer); isPtr {
								xc = "*" + xc
							}
							ft := g.rend.typeStr(f.Type())
							code := fmt.Sprintf("func() %s { v := %s; return (*%s)(unsafe.Pointer(&v)).%s }()", ft, xc, g.rend.mirror(t), e.F)
							return goVal{code: code, t: f.Type()}
						}
					}
				}
			}
			gounsup("no field %s", e.F)
		}
		return goVal{code: x.code + "." + e.F, t: v.Type()}
	case *CCall:
		return g.call(e)
	}
	gounsup("cannot compile %s", e)
	return goVal{}
}

func (g *goGen) idx(i goVal) string {
	if i.lit {
		return strings.Trim(i.code, "()")
	}
	if g.bigMode() {
		if !i.big && i.t != nil && isIntType(i.t) {
			return "int(" + i.code + ")"
		}
		return "govcI(" + g.num(i) + ")"
	}
	return "int(" + i.code + ")"
}

func (g *goGen) lookup(name string) (goVal, bool) {
	if g.inOld {
		if v, ok := g.oldVars[name]; ok {
			return v, true
		}
	}
	v, ok := g.vars[name]
	return v, ok
}

func (g *goGen) ident(name string) goVal {
	if v, ok := g.lookup(name); ok {
		return v
	}
	if name == "nil" {
		return goVal{code: "nil"}
	}
	if obj := g.pkg.Scope().Lookup(name); obj != nil {
		switch o := obj.(type) {
		case *types.Const:
			if isIntType(o.Type()) {
				return goVal{code: o.Val().ExactString(), lit: true}
			}
			return goVal{code: name, t: o.Type()}
		case *types.Var:
			return goVal{code: name, t: o.Type()}
		}
	}
	gounsup("unknown identifier %s", name)
	return goVal{}
}

func (g *goGen) binary(e *CBin) goVal {
	switch e.Op {
	case "&&":
		return goVal{code: "(" + g.bool(e.X) + " && " + g.bool(e.Y) + ")", t: boolT}
	case "||":
		return goVal{code: "(" + g.bool(e.X) + " || " + g.bool(e.Y) + ")", t: boolT}
	case "==>":
		return goVal{code: "(!(" + g.bool(e.X) + ") || " + g.bool(e.Y) + ")", t: boolT}
	case "<==>":
		return goVal{code: "((" + g.bool(e.X) + ") == (" + g.bool(e.Y) + "))", t: boolT}
	}
	x, y := g.expr(e.X), g.expr(e.Y)
	switch e.Op {
	case "==", "!=", "<", "<=", ">", ">=":
		if !g.isInt(x) || !g.isInt(y) {
			if x.code == "nil" || y.code == "nil" {
				return goVal{code: "(" + x.code + " " + e.Op + " " + y.code + ")", t: boolT}
			}
			if (x.t != nil && isStringType(x.t)) || (y.t != nil && isStringType(y.t)) {
				return goVal{code: "(string(" + x.code + ") " + e.Op + " string(" + y.code + "))", t: boolT}
			}
			if e.Op != "==" && e.Op != "!=" {
				gounsup("ordering on %s", e)
			}
			if x.t != nil {
				if _, isSl := types.Unalias(x.t).Underlying().(*types.Slice); isSl {
					gounsup("slice equality")
				}
			}
			return goVal{code: "(" + x.code + " " + e.Op + " " + y.code + ")", t: boolT}
		}
		if g.bigMode() {
			return goVal{code: "(govcCmp(" + g.num(x) + ", " + g.num(y) + ") " + e.Op + " 0)", t: boolT}
		}
		a, b := g.pair(x, y)
		return goVal{code: "(" + a + " " + e.Op + " " + b + ")", t: boolT}
	case "+", "-", "*", "/", "%", "&", "|", "^", "&^":
		if g.bigMode() {
			fn := map[string]string{"+": "govcAdd", "-": "govcSub", "*": "govcMul", "/": "govcQuo", "%": "govcRem",
				"&": "govcAnd", "|": "govcOr", "^": "govcXor", "&^": "govcAndNot"}[e.Op]
			return goVal{code: fn + "(" + g.num(x) + ", " + g.num(y) + ")", big: true}
		}
		a, b := g.pair(x, y)
		rt := x.t
		if x.lit {
			rt = y.t
		}
		if x.lit && y.lit {
			return goVal{code: "(" + a + " " + e.Op + " " + b + ")", lit: true}
		}
		return goVal{code: "(" + a + " " + e.Op + " " + b + ")", t: rt}
	case "<<", ">>":
		if g.bigMode() {
			fn := "govcShl"
			if e.Op == ">>" {
				fn = "govcShr"
			}
			return goVal{code: fn + "(" + g.num(x) + ", " + g.idx(y) + ")", big: true}
		}
		cnt := y.code
		if !y.lit {
			cnt = "uint(" + y.code + ")"
		}
		xc := x.code
		if x.lit {
			xc = "int64(" + x.code + ")"
		}
		rt := x.t
		if rt == nil {
			rt = types.Typ[types.Int64]
		}
		return goVal{code: "(" + xc + " " + e.Op + " " + cnt + ")", t: rt}
	}
	gounsup("operator %s", e.Op)
	return goVal{}
}

// pair renders two integer operands in a common Go type (bv mode).
func (g *goGen) pair(x, y goVal) (string, string) {
	switch {
	case x.lit || y.lit:
		return x.code, y.code
	case x.t != nil && y.t != nil && !types.Identical(x.t, y.t):
		bx, _ := intInfo(x.t)
		by, _ := intInfo(y.t)
		if bx >= by {
			return x.code, g.rend.typeStr(x.t) + "(" + y.code + ")"
		}
		return g.rend.typeStr(y.t) + "(" + x.code + ")", y.code
	}
	return x.code, y.code
}

func (g *goGen) quant(e *CQuant) goVal {
	body := e.Body
	var guard CExpr
	if b, ok := body.(*CBin); ok && ((e.Forall && b.Op == "==>") || (!e.Forall && b.Op == "&&")) {
		guard = b.X
	} else if !e.Forall {
		guard = body
	}
	saved := map[string]goVal{}
	var heads []string
	los, his := map[string]string{}, map[string]string{}
	sib := map[string]bool{}
	for _, v := range e.Vars {
		sib[v.Name] = true
		if old, ok := g.vars[v.Name]; ok {
			saved[v.Name] = old
			delete(g.vars, v.Name)
		}
	}
	for _, v := range e.Vars {
		switch v.Type {
		case "", "int":
			los[v.Name], his[v.Name] = g.findBounds(guard, v.Name)
		case "byte", "uint8":
			los[v.Name], his[v.Name] = "0", "256"
		default:
			gounsup("quantifier over %s", v.Type)
		}
	}
	for round := 0; round < 3; round++ {
		for _, c := range flattenAnd(guard) {
			b, ok := c.(*CBin)
			if !ok {
				continue
			}
			x, xok := b.X.(*CIdent)
			y, yok := b.Y.(*CIdent)
			if !xok || !yok || !sib[x.Name] || !sib[y.Name] {
				continue
			}
			small, bigv := x.Name, y.Name
			switch b.Op {
			case "<", "<=":
			case ">", ">=":
				small, bigv = y.Name, x.Name
			default:
				continue
			}
			if his[small] == "" && his[bigv] != "" {
				his[small] = his[bigv]
			}
			if los[bigv] == "" && los[small] != "" {
				los[bigv] = los[small]
			}
		}
	}
	for _, v := range e.Vars {
		g.nq++
		name := fmt.Sprintf("%s_%d", v.Name, g.nq)
		lo, hi := los[v.Name], his[v.Name]
		if lo == "" || hi == "" {
			gounsup("no finite range for quantified %s", v.Name)
		}
		g.vars[v.Name] = goVal{code: name, t: intT}
		heads = append(heads, fmt.Sprintf("for %s := %s; %s < %s && %s < (%s)+100000; %s++ {", name, lo, name, hi, name, lo, name))
	}
	b := g.bool(e.Body)
	for _, v := range e.Vars {
		delete(g.vars, v.Name)
		if old, ok := saved[v.Name]; ok {
			g.vars[v.Name] = old
		}
	}
	var sb strings.Builder
	sb.WriteString("func() bool { ")
	for _, h := range heads {
		sb.WriteString(h + " ")
	}
	if e.Forall {
		sb.WriteString("if !(" + b + ") { return false } ")
	} else {
		sb.WriteString("if " + b + " { return true } ")
	}
	sb.WriteString(strings.Repeat("}; ", len(heads)))
	if e.Forall {
		sb.WriteString("return true }()")
	} else {
		sb.WriteString("return false }()")
	}
	return goVal{code: sb.String(), t: boolT}
}

// findBounds looks for lo <= k / lo < k and k < hi / k <= hi among the
// conjuncts of the guard (as Go int expressions).
func (g *goGen) findBounds(guard CExpr, name string) (lo, hi string) {
	isVar := func(e CExpr) bool { id, ok := e.(*CIdent); return ok && id.Name == name }
	try := func(e CExpr) (s string, ok bool) {
		defer func() {
			if r := recover(); r != nil {
				if _, is := r.(goUnsup); is {
					s, ok = "", false
					return
				}
				panic(r)
			}
		}()
		return g.idx(g.expr(e)), true
	}
	for _, c := range flattenAnd(guard) {
		b, ok := c.(*CBin)
		if !ok {
			continue
		}
		switch {
		case (b.Op == "<=" || b.Op == "<") && isVar(b.Y) && lo == "":
			if s, ok := try(b.X); ok {
				lo = s
				if b.Op == "<" {
					lo = "(" + s + ")+1"
				}
			}
		case (b.Op == ">=" || b.Op == ">") && isVar(b.X) && lo == "":
			if s, ok := try(b.Y); ok {
				lo = s
				if b.Op == ">" {
					lo = "(" + s + ")+1"
				}
			}
		case (b.Op == "<" || b.Op == "<=") && isVar(b.X) && hi == "":
			if s, ok := try(b.Y); ok {
				hi = s
				if b.Op == "<=" {
					hi = "(" + s + ")+1"
				}
			}
		case (b.Op == ">" || b.Op == ">=") && isVar(b.Y) && hi == "":
			if s, ok := try(b.X); ok {
				hi = s
				if b.Op == ">=" {
					hi = "(" + s + ")+1"
				}
			}
		}
	}
	return
}

func (g *goGen) call(e *CCall) goVal {
	arg := func(i int) goVal { return g.expr(e.Args[i]) }
	switch e.F {
	case "old":
		was := g.inOld
		g.inOld = true
		defer func() { g.inOld = was }()
		return g.expr(e.Args[0])
	case "len", "cap":
		x := arg(0)
		if g.absStr && x.t != nil && isStringType(x.t) {
			gounsup("len of abstract string")
		}
		return goVal{code: e.F + "(" + x.code + ")", t: intT}
	case "min", "max":
		if g.bigMode() {
			fn := "govcMin"
			if e.F == "max" {
				fn = "govcMax"
			}
			return goVal{code: fn + "(" + g.num(arg(0)) + ", " + g.num(arg(1)) + ")", big: true}
		}
		a, b := g.pair(arg(0), arg(1))
		return goVal{code: e.F + "(" + a + ", " + b + ")", t: arg(0).t}
	case "abs":
		if g.bigMode() {
			return goVal{code: "govcAbs(" + g.num(arg(0)) + ")", big: true}
		}
		gounsup("abs in bv mode")
	case "int", "int64", "uint64", "uint", "byte", "uint8", "uint16", "uint32", "int32", "int16", "int8":
		x := arg(0)
		bt := map[string]types.BasicKind{"int": types.Int, "int64": types.Int64, "uint64": types.Uint64, "uint": types.Uint, "byte": types.Uint8,
			"uint8": types.Uint8, "uint16": types.Uint16, "uint32": types.Uint32, "int32": types.Int32, "int16": types.Int16, "int8": types.Int8}[e.F]
		if !g.bigMode() {
			return goVal{code: e.F + "(" + x.code + ")", t: types.Typ[bt]}
		}
		bits, signed := intInfo(types.Typ[bt])
		return goVal{code: fmt.Sprintf("govcWrap(%s, %d, %v)", g.num(x), bits, signed), big: true}
	case "string":
		x := arg(0)
		return goVal{code: "string(" + x.code + ")", t: types.Typ[types.String]}
	case "div", "mod":
		if !g.bigMode() {
			gounsup("div/mod in bv mode")
		}
		fn := "govcEDiv"
		if e.F == "mod" {
			fn = "govcEMod"
		}
		return goVal{code: fn + "(" + g.num(arg(0)) + ", " + g.num(arg(1)) + ")", big: true}
	case "pow2":
		if g.bigMode() {
			return goVal{code: "govcShl(govcB(1), " + g.idx(arg(0)) + ")", big: true}
		}
		gounsup("pow2 in bv mode")
	case "typeis", "unbox":
		x := arg(0)
		tyname := strings.Trim(e.Args[1].String(), `"`)
		if s, ok := e.Args[1].(*CStr); ok {
			tyname = s.V
		}
		sc := &specCtx{vc: g.rend.vc, pkg: g.pkg}
		if sc.vc == nil {
			gounsup("%s is not executable here", e.F)
		}
		t := sc.namedType(tyname)
		if t == nil {
			gounsup("%s: unknown type %s", e.F, tyname)
		}
		ts := g.rend.typeStr(t)
		if e.F == "typeis" {
			return goVal{code: "func() bool { _, ok := any(" + x.code + ").(" + ts + "); return ok }()", t: boolT}
		}
		return goVal{code: "any(" + x.code + ").(" + ts + ")", t: t}
	case "ref", "off", "fresh", "update", "deref":
		gounsup("%s is not executable", e.F)
	}
	if sf := g.eng.specFn(g.pkg, e.F); sf != nil {
		if len(sf.Params) != len(e.Args) {
			gounsup("arity of %s", e.F)
		}
		g.depth++
		defer func() { g.depth-- }()
		if g.depth > 20 {
			gounsup("spec recursion")
		}
		savedVars, savedOld := g.vars, g.oldVars
		nv := map[string]goVal{}
		no := map[string]goVal{}
		for i, p := range sf.Params {
			v := g.expr(e.Args[i])
			nv[p.Name] = v
			was := g.inOld
			g.inOld = true
			func() {
				defer func() {
					if r := recover(); r != nil {
						if _, is := r.(goUnsup); !is {
							panic(r)
						}
					}
				}()
				no[p.Name] = g.expr(e.Args[i])
			}()
			g.inOld = was
		}
		g.vars, g.oldVars = nv, no
		defer func() { g.vars, g.oldVars = savedVars, savedOld }()
		r := g.expr(sf.Body)
		if sf.Ret == "bool" && !r.big && !r.lit {
			r.t = boolT
		}
		return r
	}
	// a real function of the package (lemmas): call it
	if obj, ok := g.pkg.Scope().Lookup(e.F).(*types.Func); ok {
		sig := obj.Type().(*types.Signature)
		var as []string
		for i := range e.Args {
			a := arg(i)
			if i < sig.Params().Len() {
				pt := sig.Params().At(i).Type()
				if g.bigMode() && isIntType(pt) {
					as = append(as, g.rend.typeStr(pt)+"("+g.num(a)+".Int64())")
				} else {
					as = append(as, g.rend.typeStr(pt)+"("+a.code+")")
				}
			} else {
				as = append(as, a.code)
			}
		}
		if sig.Results().Len() == 1 {
			return goVal{code: e.F + "(" + strings.Join(as, ", ") + ")", t: sig.Results().At(0).Type()}
		}
		gounsup("multi-result call %s", e.F)
	}
	gounsup("unknown function %s", e.F)
	return goVal{}
}
