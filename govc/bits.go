package main

import (
	"go/token"
	"go/types"

	"golang.org/x/tools/go/ssa"
)

// lowZeroBits: a number k such that the low k bits of v are certainly zero
// (v = x << k, or an or/xor/sum of such values).
func lowZeroBits(v ssa.Value) int {
	switch x := v.(type) {
	case *ssa.BinOp:
		switch x.Op {
		case token.SHL:
			if c, ok := x.Y.(*ssa.Const); ok && c.Value != nil {
				if k, ok := constInt(c); ok && k >= 0 && k < 64 {
					return int(k) + lowZeroBits(x.X)
				}
			}
		case token.OR, token.XOR, token.ADD:
			return min(lowZeroBits(x.X), lowZeroBits(x.Y))
		}
	case *ssa.Convert:
		// widening or same-width conversions of integers keep low zero bits
		if isIntType(x.X.Type()) && isIntType(x.Type()) {
			fb, _ := intInfo(x.X.Type())
			tb, _ := intInfo(x.Type())
			if tb >= fb {
				return lowZeroBits(x.X)
			}
		}
	case *ssa.Const:
		if k, ok := constInt(x); ok && k == 0 {
			return 64
		}
	}
	return 0
}

// maxBits: a number n such that 0 <= v < 2^n certainly holds; 1000 if v may be
// negative or nothing is known.
func maxBits(v ssa.Value) int {
	if !isIntType(v.Type()) {
		return 1000
	}
	bits, signed := intInfo(v.Type())
	switch x := v.(type) {
	case *ssa.Convert:
		if isIntType(x.X.Type()) {
			fb, fsigned := intInfo(x.X.Type())
			if !fsigned && (!signed || bits > fb) {
				// zero extension of an unsigned value
				return min(fb, maxBits(x.X))
			}
		}
	case *ssa.BinOp:
		switch x.Op {
		case token.SHL:
			if c, ok := x.Y.(*ssa.Const); ok && !signed {
				if k, ok := constInt(c); ok && k >= 0 && k < 64 {
					return min(bits, maxBits(x.X)+int(k))
				}
			}
		case token.OR, token.XOR:
			if !signed {
				return min(bits, max(maxBits(x.X), maxBits(x.Y)))
			}
		case token.AND:
			if !signed {
				return min(bits, min(maxBits(x.X), maxBits(x.Y)))
			}
		}
	case *ssa.Const:
		if k, ok := constInt(x); ok && k >= 0 {
			n := 0
			for k > 0 {
				k >>= 1
				n++
			}
			return n
		}
	}
	if !signed {
		return bits
	}
	return 1000
}

func constInt(c *ssa.Const) (int64, bool) {
	if c.Value == nil {
		return 0, false
	}
	if _, ok := c.Type().Underlying().(*types.Basic); !ok {
		return 0, false
	}
	return c.Int64(), isIntType(c.Type())
}
