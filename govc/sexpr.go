package main

import (
	"strings"
)

// Minimal s-expression tree, used by the counterexample search to instantiate
// quantifiers over a small domain (never used to discharge an obligation).

type sx struct {
	atom string
	list []*sx
}

func parseSx(s string) []*sx {
	var stack [][]*sx
	cur := []*sx{}
	i := 0
	for i < len(s) {
		c := s[i]
		switch {
		case c == '(':
			stack = append(stack, cur)
			cur = []*sx{}
			i++
		case c == ')':
			n := &sx{list: cur}
			if n.list == nil {
				n.list = []*sx{}
			}
			cur = stack[len(stack)-1]
			stack = stack[:len(stack)-1]
			cur = append(cur, n)
			i++
		case c == ' ' || c == '\n' || c == '\t' || c == '\r':
			i++
		case c == '|':
			j := strings.IndexByte(s[i+1:], '|')
			cur = append(cur, &sx{atom: s[i : i+j+2]})
			i += j + 2
		case c == '"':
			j := i + 1
			for j < len(s) && s[j] != '"' {
				j++
			}
			cur = append(cur, &sx{atom: s[i : j+1]})
			i = j + 1
		case c == ';':
			for i < len(s) && s[i] != '\n' {
				i++
			}
		default:
			j := i
			for j < len(s) && !strings.ContainsRune("() \n\t\r", rune(s[j])) {
				j++
			}
			cur = append(cur, &sx{atom: s[i:j]})
			i = j
		}
	}
	return cur
}

func (x *sx) String() string {
	if x.list == nil {
		return x.atom
	}
	var b strings.Builder
	x.write(&b)
	return b.String()
}

func (x *sx) write(b *strings.Builder) {
	if x.list == nil {
		b.WriteString(x.atom)
		return
	}
	b.WriteByte('(')
	for i, e := range x.list {
		if i > 0 {
			b.WriteByte(' ')
		}
		e.write(b)
	}
	b.WriteByte(')')
}

func (x *sx) head() string {
	if x.list != nil && len(x.list) > 0 && x.list[0].list == nil {
		return x.list[0].atom
	}
	return ""
}

func atomSx(s string) *sx { return &sx{atom: s} }

func subst(x *sx, env map[string]*sx) *sx {
	if x.list == nil {
		if v, ok := env[x.atom]; ok {
			return v
		}
		return x
	}
	n := &sx{list: make([]*sx, len(x.list))}
	for i, e := range x.list {
		n.list[i] = subst(e, env)
	}
	return n
}

// boundInst replaces quantifiers by finite conjunctions/disjunctions over a
// small domain. Quantifiers over sorts without a domain become `dflt`
// (true for assumptions, which weakens them).
func boundInst(x *sx, dom int, dflt string) *sx {
	if x.list == nil {
		return x
	}
	h := x.head()
	if (h == "forall" || h == "exists") && len(x.list) == 3 {
		binders := x.list[1].list
		body := x.list[2]
		if body.head() == "!" && len(body.list) >= 2 {
			body = body.list[1]
		}
		body = boundInst(body, dom, dflt)
		var names []string
		var doms [][]*sx
		for _, b := range binders {
			if len(b.list) != 2 {
				return atomSx(dflt)
			}
			names = append(names, b.list[0].atom)
			sort := b.list[1].String()
			var d []*sx
			switch {
			case sort == "Int":
				for k := 0; k < dom; k++ {
					d = append(d, atomSx(itoa(k)))
				}
			case strings.HasPrefix(sort, "(_ BitVec"):
				w := bvBits(sort)
				for k := 0; k < dom; k++ {
					d = append(d, parseSx("(_ bv" + itoa(k) + " " + itoa(w) + ")")[0])
				}
			case sort == "Bool":
				d = []*sx{atomSx("false"), atomSx("true")}
			default:
				return atomSx(dflt)
			}
			doms = append(doms, d)
		}
		total := 1
		for _, d := range doms {
			total *= len(d)
		}
		if total > 400 {
			return atomSx(dflt)
		}
		op := "and"
		if h == "exists" {
			op = "or"
		}
		out := &sx{list: []*sx{atomSx(op)}}
		idx := make([]int, len(doms))
		for {
			env := map[string]*sx{}
			for i, n := range names {
				env[n] = doms[i][idx[i]]
			}
			out.list = append(out.list, subst(body, env))
			k := len(idx) - 1
			for k >= 0 {
				idx[k]++
				if idx[k] < len(doms[k]) {
					break
				}
				idx[k] = 0
				k--
			}
			if k < 0 {
				break
			}
		}
		if len(out.list) == 1 {
			if op == "and" {
				return atomSx("true")
			}
			return atomSx("false")
		}
		return out
	}
	n := &sx{list: make([]*sx, len(x.list))}
	for i, e := range x.list {
		n.list[i] = boundInst(e, dom, dflt)
	}
	return n
}

func itoa(n int) string {
	if n == 0 {
		return "0"
	}
	neg := n < 0
	if neg {
		n = -n
	}
	var d []byte
	for n > 0 {
		d = append([]byte{byte('0' + n%10)}, d...)
		n /= 10
	}
	if neg {
		return "-" + string(d)
	}
	return string(d)
}
