package main

import (
	"fmt"
	"go/ast"
	"go/token"
	"go/types"
	"os"
	"path/filepath"
	"sort"
	"strconv"
	"strings"

	"golang.org/x/tools/go/packages"
	"golang.org/x/tools/go/ssa"
	"golang.org/x/tools/go/ssa/ssautil"
)

const modPath = "github.com/apmckinlay/gsuneido"

type Engine struct {
	repo   string
	verif  string
	fset   *token.FileSet
	prog   *ssa.Program
	pkgs   []*packages.Package
	allPkg map[string]*packages.Package
	cs     *ContractSet
	loadS  float64
	stored map[*ssa.Global]bool
	// prop: the property being checked. A clause whose name starts with "Cnn_"
	// belongs to property Cnn only: its obligations are generated in that
	// property's check and nowhere else (functions shared by several properties)
	prop string
}

func LoadEngine(repo, verif string, patterns []string) (*Engine, error) {
	eng := &Engine{repo: repo, verif: verif, allPkg: map[string]*packages.Package{}}
	cfg := &packages.Config{Mode: packages.LoadAllSyntax, Dir: repo, BuildFlags: []string{"-tags=verif"}, Tests: false}
	pkgs, err := packages.Load(cfg, patterns...)
	if err != nil {
		return nil, err
	}
	var errs []string
	packages.Visit(pkgs, nil, func(p *packages.Package) {
		eng.allPkg[p.PkgPath] = p
		if strings.HasPrefix(p.PkgPath, modPath) {
			for _, e := range p.Errors {
				// missing embed files do not prevent type checking
				if strings.Contains(e.Msg, "pattern") && strings.Contains(e.Msg, "no matching files") {
					continue
				}
				errs = append(errs, e.Error())
			}
		}
	})
	if len(errs) > 0 {
		return nil, fmt.Errorf("package errors:\n%s", strings.Join(errs, "\n"))
	}
	eng.pkgs = pkgs
	if len(pkgs) > 0 {
		eng.fset = pkgs[0].Fset
	}
	prog, _ := ssautil.AllPackages(pkgs, ssa.GlobalDebug|ssa.InstantiateGenerics)
	prog.Build()
	eng.prog = prog
	// contracts
	eng.cs = NewContractSet()
	vcFiles, _ := filepath.Glob(filepath.Join(verif, "contracts", "*.vc"))
	sort.Strings(vcFiles)
	for _, f := range vcFiles {
		eng.cs.LoadFile(f, "")
	}
	var paths []string
	for path := range eng.allPkg {
		paths = append(paths, path)
	}
	sort.Strings(paths)
	for _, path := range paths {
		p := eng.allPkg[path]
		if !strings.HasPrefix(path, modPath) {
			continue
		}
		for _, gf := range p.GoFiles {
			if filepath.Base(gf) == "verif_contracts.go" {
				eng.cs.LoadFile(gf, path)
			}
		}
	}
	if len(eng.cs.Errors) > 0 {
		return nil, fmt.Errorf("contract errors:\n%s", strings.Join(eng.cs.Errors, "\n"))
	}
	return eng, nil
}

func fnKey(fn *ssa.Function) (pkgPath, key string) {
	if o := fn.Origin(); o != nil {
		fn = o
	}
	if fn.Pkg != nil {
		pkgPath = fn.Pkg.Pkg.Path()
	} else if fn.Object() != nil && fn.Object().Pkg() != nil {
		pkgPath = fn.Object().Pkg().Path()
	}
	name := fn.Name()
	if i := strings.Index(name, "["); i >= 0 {
		name = name[:i]
	}
	if recv := fn.Signature.Recv(); recv != nil {
		rt := recv.Type()
		star := ""
		if p, ok := rt.(*types.Pointer); ok {
			star = "*"
			rt = p.Elem()
		}
		tn := ""
		if n, ok := types.Unalias(rt).(*types.Named); ok {
			tn = n.Obj().Name()
		} else {
			tn = rt.String()
		}
		return pkgPath, "(" + star + tn + ")." + name
	}
	if fn.Parent() != nil {
		_, pk := fnKey(fn.Parent())
		return pkgPath, pk + "$" + strings.TrimPrefix(name, fn.Parent().Name()+"$")
	}
	return pkgPath, name
}

func (eng *Engine) contractFor(fn *ssa.Function) *Contract {
	p, k := fnKey(fn)
	return eng.cs.Funcs[p+"#"+k]
}

func (eng *Engine) ifaceContract(com *ssa.CallCommon) *Contract {
	t := types.Unalias(com.Value.Type())
	n, ok := t.(*types.Named)
	if !ok || n.Obj().Pkg() == nil {
		return nil
	}
	return eng.cs.Funcs[n.Obj().Pkg().Path()+"#("+n.Obj().Name()+")."+com.Method.Name()]
}

func (eng *Engine) autoInline(fn *ssa.Function) bool {
	p, _ := fnKey(fn)
	lim := eng.cs.pragma(p, "autoinline")
	if lim == "" {
		return false
	}
	n, _ := strconv.Atoi(lim)
	cnt := 0
	for _, b := range fn.Blocks {
		cnt += len(b.Instrs)
		for _, s := range b.Succs {
			if s.Dominates(b) {
				return false // has a loop
			}
		}
	}
	return cnt <= n
}

func (eng *Engine) specFn(pkg *types.Package, name string) *SpecFn {
	if pkg != nil {
		if sf := eng.cs.Specs[pkg.Path()+"#"+name]; sf != nil {
			return sf
		}
	}
	if sf := eng.cs.Specs["#"+name]; sf != nil {
		return sf
	}
	// qualified: search all packages by short name (pkgname_fn not needed; unique names expected)
	for k, sf := range eng.cs.Specs {
		if strings.HasSuffix(k, "#"+name) {
			return sf
		}
	}
	return nil
}

func (eng *Engine) typesPkg(path string) *types.Package {
	if p := eng.allPkg[path]; p != nil {
		return p.Types
	}
	return nil
}

// findFunc resolves a contract key to an SSA function.
func (eng *Engine) findFunc(c *Contract) *ssa.Function {
	p := eng.allPkg[c.PkgPath]
	if p == nil {
		return nil
	}
	sp := eng.prog.Package(p.Types)
	if sp == nil {
		return nil
	}
	key := c.Key
	if strings.HasPrefix(key, "(") {
		i := strings.Index(key, ").")
		tn := strings.TrimPrefix(key[1:i], "*")
		mn := key[i+2:]
		ptr := strings.HasPrefix(key, "(*")
		obj, ok := p.Types.Scope().Lookup(tn).(*types.TypeName)
		if !ok {
			return nil
		}
		var t types.Type = obj.Type()
		if ptr {
			t = types.NewPointer(t)
		}
		sel := eng.prog.MethodSets.MethodSet(t).Lookup(p.Types, mn)
		if sel == nil {
			return nil
		}
		fn := eng.prog.MethodValue(sel)
		// the method must be declared with this receiver kind (not a promoted wrapper)
		if fn == nil || fn.Synthetic != "" {
			return nil
		}
		_, k := fnKey(fn)
		if k != key {
			return nil
		}
		return fn
	}
	if i := strings.Index(key, "$"); i >= 0 {
		return nil
	}
	fn, _ := sp.Members[key].(*ssa.Function)
	return fn
}

// constGlobal returns the value of a package-level variable that is never
// stored to outside its initialiser and is initialised by a literal of constants.
func (vc *VC) constGlobal(g *ssa.Global) *Term {
	eng := vc.eng
	if g.Pkg == nil {
		return nil
	}
	key := "cg:" + g.String()
	if n, ok := vc.lits[key]; ok {
		if n == "" {
			return nil
		}
		return &Term{n, vc.sortOf(g.Type().(*types.Pointer).Elem()), g.Type().(*types.Pointer).Elem()}
	}
	vc.lits[key] = ""
	// 1. no stores outside init
	if eng.storedGlobal(g) {
		return nil
	}
	p := eng.allPkg[g.Pkg.Pkg.Path()]
	if p == nil {
		return nil
	}
	// 2. find initialiser in syntax
	var init ast.Expr
	for _, f := range p.Syntax {
		for _, d := range f.Decls {
			gd, ok := d.(*ast.GenDecl)
			if !ok || gd.Tok != token.VAR {
				continue
			}
			for _, s := range gd.Specs {
				vs := s.(*ast.ValueSpec)
				for i, n := range vs.Names {
					if n.Name == g.Name() && i < len(vs.Values) {
						init = vs.Values[i]
					}
				}
			}
		}
	}
	elemT := g.Type().(*types.Pointer).Elem()
	if init == nil {
		// declared without initialiser and never stored to: the zero value
		declared := false
		for _, f := range p.Syntax {
			for _, d := range f.Decls {
				if gd, ok := d.(*ast.GenDecl); ok && gd.Tok == token.VAR {
					for _, s := range gd.Specs {
						vs := s.(*ast.ValueSpec)
						for _, n := range vs.Names {
							if n.Name == g.Name() && len(vs.Values) == 0 {
								declared = true
							}
						}
					}
				}
			}
		}
		if !declared {
			return nil
		}
		if _, isS := structOf(elemT); !isS && !isIntType(elemT) && !isBoolType(elemT) {
			return nil
		}
		z := vc.zero(elemT)
		name := vc.fresh("cst_" + g.Name())
		vc.declare(name, z.Sort)
		vc.assume("(= " + name + " " + z.S + ")")
		vc.lits[key] = name
		vc.note("package variable " + g.String() + " treated as constant (never stored to; zero value)")
		return &Term{name, z.Sort, elemT}
	}
	if _, isIface := elemT.Underlying().(*types.Interface); isIface && init != nil {
		// interface variable initialised once with a value of a concrete type:
		// its dynamic type is known (the payload only for constant conversions)
		it := p.TypesInfo.Types[init].Type
		if it == nil {
			return nil
		}
		if _, isI := it.Underlying().(*types.Interface); isI {
			return nil
		}
		name := vc.fresh("cst_" + g.Name())
		vc.declare(name, SIface)
		vc.assume(fmt.Sprintf("(= (i-tag %s) %d)", name, vc.typeTag(it)))
		if call, ok := init.(*ast.CallExpr); ok && len(call.Args) == 1 {
			if tv := p.TypesInfo.Types[call.Fun]; tv.IsType() {
				if cv := p.TypesInfo.Types[call.Args[0]].Value; cv != nil {
					box, unbox := vc.boxFns(it)
					c := vc.constTerm(cv, it)
					vc.assume("(= (i-val " + name + ") (" + box + " " + c.S + "))")
					vc.assume("(= (" + unbox + " (i-val " + name + ")) " + c.S + ")")
				}
			}
		}
		vc.lits[key] = name
		vc.note("package variable " + g.String() + " treated as constant (no store outside its initialiser)")
		return &Term{name, SIface, elemT}
	}
	cl, ok := init.(*ast.CompositeLit)
	if !ok {
		return nil
	}
	var et types.Type
	switch u := elemT.Underlying().(type) {
	case *types.Array:
		et = u.Elem()
	case *types.Struct:
		// struct literal of constants (positional or keyed); missing fields are zero
		vals := make([]string, u.NumFields())
		for i := range vals {
			vals[i] = vc.zero(u.Field(i).Type()).S
		}
		for i, e := range cl.Elts {
			fi := i
			if kv, ok := e.(*ast.KeyValueExpr); ok {
				id, ok := kv.Key.(*ast.Ident)
				if !ok {
					return nil
				}
				fi = -1
				for k := 0; k < u.NumFields(); k++ {
					if u.Field(k).Name() == id.Name {
						fi = k
					}
				}
				e = kv.Value
			}
			if fi < 0 || fi >= u.NumFields() {
				return nil
			}
			v := p.TypesInfo.Types[e].Value
			if v == nil {
				return nil
			}
			vals[fi] = vc.constTerm(v, u.Field(fi).Type()).S
		}
		sn := vc.sortOf(elemT)
		name := vc.fresh("cst_" + g.Name())
		vc.declare(name, sn)
		if len(vals) == 0 {
			vc.assume("(= " + name + " mk-" + sn + ")")
		} else {
			vc.assume("(= " + name + " (mk-" + sn + " " + strings.Join(vals, " ") + "))")
		}
		vc.lits[key] = name
		vc.note("package variable " + g.String() + " treated as constant (no store outside its initialiser)")
		return &Term{name, sn, elemT}
	default:
		return nil
	}
	if !isIntType(et) {
		return nil
	}
	bits, _ := intInfo(et)
	name := vc.fresh("tbl_" + g.Name())
	sort := vc.sortOf(elemT)
	vc.declare(name, sort)
	idx := int64(0)
	for _, e := range cl.Elts {
		if kv, ok := e.(*ast.KeyValueExpr); ok {
			kvv := p.TypesInfo.Types[kv.Key].Value
			if kvv == nil {
				return nil
			}
			idx, _ = strconv.ParseInt(kvv.ExactString(), 10, 64)
			e = kv.Value
		}
		v := p.TypesInfo.Types[e].Value
		if v == nil {
			return nil
		}
		c := vc.constTerm(v, et)
		_ = bits
		vc.assume("(= (select " + name + " " + vc.intLit(idx, 64) + ") " + c.S + ")")
		idx++
	}
	// elements not listed are zero
	if a, ok := elemT.Underlying().(*types.Array); ok {
		for ; idx < a.Len() && idx < 4096; idx++ {
			vc.assume("(= (select " + name + " " + vc.intLit(idx, 64) + ") " + vc.intLit(0, bits) + ")")
		}
	}
	vc.lits[key] = name
	vc.note("package variable " + g.String() + " treated as constant (no store outside its initialiser)")
	return &Term{name, sort, elemT}
}

func (eng *Engine) storedGlobal(g *ssa.Global) bool {
	if eng.stored == nil {
		eng.stored = map[*ssa.Global]bool{}
		for fn := range ssautil.AllFunctions(eng.prog) {
			isInit := fn.Name() == "init" && fn.Parent() == nil && fn.Signature.Recv() == nil
			for _, b := range fn.Blocks {
				for _, in := range b.Instrs {
					if s, ok := in.(*ssa.Store); ok && !isInit {
						if rg := rootGlobal(s.Addr); rg != nil {
							eng.stored[rg] = true
						}
					}
					// an address that escapes (receiver or argument of a call,
					// stored as a value, boxed, captured) may be written through
					switch in := in.(type) {
					case *ssa.UnOp, *ssa.FieldAddr, *ssa.IndexAddr, *ssa.Slice, *ssa.DebugRef:
						continue
					case *ssa.Store:
						if rg := rootGlobal(in.Val); rg != nil {
							eng.stored[rg] = true
						}
						continue
					}
					for _, op := range in.Operands(nil) {
						if *op == nil {
							continue
						}
						if rg := rootGlobal(*op); rg != nil {
							eng.stored[rg] = true
						}
					}
				}
			}
		}
	}
	return eng.stored[g]
}

func storesTo(fn *ssa.Function, g *ssa.Global, seen map[*ssa.Function]bool) bool {
	if seen[fn] {
		return false
	}
	seen[fn] = true
	for _, b := range fn.Blocks {
		for _, in := range b.Instrs {
			if s, ok := in.(*ssa.Store); ok {
				if rootGlobal(s.Addr) == g {
					return true
				}
			}
			// address escaping: &g passed somewhere (slices of the array are reads mostly; accept)
		}
	}
	for _, af := range fn.AnonFuncs {
		if storesTo(af, g, seen) {
			return true
		}
	}
	return false
}

func rootGlobal(v ssa.Value) *ssa.Global {
	switch v := v.(type) {
	case *ssa.Global:
		return v
	case *ssa.FieldAddr:
		return rootGlobal(v.X)
	case *ssa.IndexAddr:
		return rootGlobal(v.X)
	}
	return nil
}

func die(format string, a ...any) {
	fmt.Fprintf(os.Stderr, format+"\n", a...)
	os.Exit(2)
}
