package main

import (
	"fmt"
	"go/types"
	"sort"
	"strings"

	"golang.org/x/tools/go/ssa"
)

type FuncResult struct {
	Name        string
	Key         string
	File        string
	Instrs      int
	Obls        []*Obligation
	Unsupported string // non-empty: function could not be brought under the generator
	Unbound     string
	Trusted     []string
	Havoced     []string
	Inlined     []string
	Used        []string
	Notes       []string
	Prelude     string
	Cmds        []string
	Mode        string
	Contract    *Contract
	Fn          *ssa.Function
	ParamConsts []string
	Witness     map[string]string
	GlobalIds   map[*ssa.Global]int
	TagTypes    []types.Type // dynamic type tags used in the VC (tag = index+1)
}

func (eng *Engine) VerifyFunc(c *Contract) (res *FuncResult) {
	pkgName := c.PkgPath
	if i := strings.LastIndex(pkgName, "/"); i >= 0 {
		pkgName = pkgName[i+1:]
	}
	res = &FuncResult{Name: pkgName + "." + c.Key, Key: c.PkgPath + "#" + c.Key, File: shortPath(c.File), Contract: c}
	fn := eng.findFunc(c)
	if fn == nil {
		res.Unbound = "function not found"
		return
	}
	// signature arity must match
	np := fn.Signature.Params().Len()
	if len(c.Params) != np {
		res.Unbound = fmt.Sprintf("contract names %d parameters, function has %d", len(c.Params), np)
		return
	}
	if len(c.Results) > 0 && len(c.Results) != fn.Signature.Results().Len() {
		res.Unbound = fmt.Sprintf("contract names %d results, function has %d", len(c.Results), fn.Signature.Results().Len())
		return
	}
	for _, b := range fn.Blocks {
		res.Instrs += len(b.Instrs)
	}
	vc := newVC(eng, fn, c)
	vc.fnName = res.Name
	res.Mode = vc.mode
	defer func() {
		if r := recover(); r != nil {
			if u, ok := r.(unsupported); ok {
				res.Unsupported = u.msg
				res.Obls = nil
				return
			}
			panic(r)
		}
	}()
	vc.verifyTop(fn, c)
	res.Obls = vc.obls
	res.Prelude = vc.prelude()
	res.Cmds = vc.cmds
	res.Trusted = keys(vc.trusted)
	res.Havoced = keys(vc.havoced)
	res.Inlined = keys(vc.inlined)
	res.Used = keys(vc.usedContracts)
	res.Notes = vc.notes
	res.Fn = fn
	res.ParamConsts = vc.paramConsts
	res.Witness = map[string]string{}
	for n, t := range vc.ghost {
		res.Witness[n] = t.S
	}
	res.GlobalIds = vc.globalIds
	res.TagTypes = vc.tagTypes
	return
}

func keys(m map[string]bool) []string {
	var out []string
	for k := range m {
		out = append(out, k)
	}
	sort.Strings(out)
	return out
}

func (vc *VC) initState() *State {
	st := &State{reach: "true", env: map[ssa.Value]Val{}, heap: map[string]string{}, names: map[string]Val{}}
	vc.declare("alloc0", "Int")
	vc.assume("(>= alloc0 1)")
	st.alloc = "alloc0"
	// register the ghost variables so that every state tracks them from the start
	var pkg *types.Package
	if vc.root != nil && vc.root.Pkg != nil {
		pkg = vc.root.Pkg.Pkg
	}
	var gnames []string
	for k := range vc.eng.cs.Ghosts {
		gnames = append(gnames, k)
	}
	sort.Strings(gnames)
	for _, k := range gnames {
		g := vc.eng.cs.Ghosts[k]
		if hv, sort, _ := vc.ghostHV(pkg, g.Name); hv != "" {
			h := vc.heapGet(st, hv)
			if sort == SRef {
				// a reference held by a ghost variable at entry designates an existing object
				vc.assume("(< (rid (select " + h + " nil)) alloc0)")
			}
		}
	}
	return st
}

func (vc *VC) verifyTop(fn *ssa.Function, c *Contract) {
	st := vc.initState()
	var args []Val
	for _, p := range fn.Params {
		a := vc.freshConst("p_"+p.Name(), p.Type())
		vc.assumeAllocated(st, a)
		args = append(args, a)
		st.env[p] = a
		vc.paramConsts = append(vc.paramConsts, a.S)
	}
	vc.oldState = st.clone()
	f0 := &frame{vc: vc, fn: fn, c: c}
	sc := f0.specCtx(st, vc.oldState)
	sc.bound = map[string]*Term{}
	// ghost witnesses
	for _, g := range c.Ghosts {
		s, t := sc.quantSort(g.Type)
		n := vc.fresh("w_" + g.Name)
		vc.declare(n, s)
		tm := &Term{n, s, t}
		vc.assume(vc.typingFact(tm))
		vc.ghost[g.Name] = tm
	}
	f0.bindParams(sc)
	// type invariants of parameters
	for _, a := range args {
		if t, ok := a.(*Term); ok {
			vc.assume(vc.typeInvFact(sc, t))
		}
	}
	for _, r := range c.Requires {
		vc.assume(sc.evalBool(r.Expr))
	}
	// vacuity guard: the precondition must be satisfiable
	if o := vc.oblige(st, "cover.pre", "false", "precondition is satisfiable (vacuity guard)", fn.Pos(), false); o != nil {
		o.Cover = true
	}
	vc.oldState = st.clone()
	res, exit := vc.execFunc(fn, c, args, nil, st, true)
	vc.checkPanicExits(f0, c)
	if exit == nil {
		if c.EnsuresPanic {
			// no path reaches a return: the refusal holds by construction (recorded
			// as a discharged obligation so that the evidence counts it)
			vc.oblige(vc.oldState, "post.never_returns", "true", "function refuses: it must not return normally", fn.Pos(), true)
		}
		if !c.EnsuresPanic && len(c.Ensures) > 0 {
			vc.notes = append(vc.notes, "function never returns normally under its precondition")
		}
		return
	}
	if c.EnsuresPanic {
		vc.oblige(exit, "post.never_returns", "false", "function refuses: it must not return normally", fn.Pos(), true)
		return
	}
	if o := vc.oblige(exit, "cover.exit", "false", "function exit is reachable (vacuity guard)", fn.Pos(), false); o != nil {
		o.Cover = true
	}
	scp := f0.specCtx(exit, vc.oldState)
	scp.bound = map[string]*Term{}
	f0.bindParams(scp)
	bindResults(scp, c, res)
	for i, g := range c.GhostRes {
		if i < len(vc.ghostOut) {
			scp.vars[g.Name] = vc.ghostOut[i]
		}
	}
	if c.PanicsIf != nil {
		n := *scp
		n.st = vc.oldState
		vc.obligeAndAssume(exit, "post.panics_when", not(n.evalBool(c.PanicsIf.Expr)), "returns normally only when not ("+c.PanicsIf.Src+")", fn.Pos())
	}
	for _, e := range c.Ensures {
		g := scp.evalBool(e.Expr)
		if parts := conjuncts(g); len(parts) > 3 && len(g) > 1500 {
			for k, part := range parts {
				o := vc.oblige(exit, fmt.Sprintf("post.%s.c%d", e.Name, k), part, fmt.Sprintf("postcondition (conjunct %d): %s", k, e.Src), fn.Pos(), e.Top)
				if o != nil {
					o.Name = fmt.Sprintf("%s#post.%s.c%d", vc.fnName, e.Name, k)
				}
				vc.assumeUnder(exit.reach, part)
			}
			continue
		}
		vc.oblige(exit, "post."+e.Name, g, "postcondition: "+e.Src, fn.Pos(), e.Top)
	}
	// result type invariants
	checkInv := func(v Val) {
		if t, ok := v.(*Term); ok {
			if g := vc.typeInvFact(scp, t); g != "true" {
				vc.oblige(exit, "typeinv.result", g, "result satisfies its type invariant", fn.Pos(), false)
			}
		}
	}
	if tv, ok := res.(Tuple); ok {
		for _, x := range tv {
			checkInv(x)
		}
	} else if res != nil {
		checkInv(res)
	}
	vc.frameObligations(f0, exit, c)
}

// frameObligations: every heap variable written must be covered by modifies.
func (vc *VC) frameObligations(f0 *frame, exit *State, c *Contract) {
	if c.TrustFrame {
		vc.trusted["frame of "+vc.fnName+" (modifies clause assumed, not checked)"] = true
		return
	}
	sc := f0.specCtx(vc.oldState, vc.oldState)
	sc.bound = map[string]*Term{}
	f0.bindParams(sc)
	allowed := map[string][]string{}
	for _, m := range c.Modifies {
		locs, all := sc.lvalues(m.Expr)
		if all {
			return
		}
		for _, l := range locs {
			if l.ref == "" {
				allowed[l.hv] = append(allowed[l.hv], "*")
			} else {
				allowed[l.hv] = append(allowed[l.hv], l.ref)
			}
		}
	}
	var hvs []string
	for h := range vc.written {
		hvs = append(hvs, h)
	}
	sort.Strings(hvs)
	for _, h := range hvs {
		whole := false
		var excl []string
		for _, r := range allowed[h] {
			if r == "*" {
				whole = true
			}
			excl = append(excl, "(not (= r "+r+"))")
		}
		if whole {
			continue
		}
		h0 := vc.heapGet(vc.oldState, h)
		h1 := vc.heapGet(exit, h)
		if h0 == h1 {
			continue
		}
		if strings.HasPrefix(h, "G_") {
			// a ghost variable lives in one cell (at the nil reference)
			if len(allowed[h]) == 0 {
				vc.oblige(exit, "frame."+h, "(= (select "+h1+" nil) (select "+h0+" nil))", "frame: ghost variable "+h+" unchanged (not in the modifies clause)", f0.fn.Pos(), false)
			}
			continue
		}
		conds := append([]string{"(< (rid r) alloc0)", "(not (= r nil))"}, excl...)
		goal := "(forall ((r Ref)) (=> " + and(conds...) + " (= (select " + h1 + " r) (select " + h0 + " r))))"
		vc.oblige(exit, "frame."+h, goal, "frame: "+h+" unchanged outside the modifies clause", f0.fn.Pos(), false)
	}
}

// ---------- lemmas ----------

func (eng *Engine) VerifyLemma(lm *Lemma) (res *FuncResult) {
	pkgName := lm.PkgPath
	if i := strings.LastIndex(pkgName, "/"); i >= 0 {
		pkgName = pkgName[i+1:]
	}
	res = &FuncResult{Name: pkgName + "#lemma." + lm.Name, Key: lm.PkgPath + "#lemma." + lm.Name, File: shortPath(lm.File)}
	c := &Contract{PkgPath: lm.PkgPath, Mode: lm.Mode}
	vc := newVC(eng, nil, c)
	vc.fnName = pkgName
	res.Mode = vc.mode
	defer func() {
		if r := recover(); r != nil {
			if u, ok := r.(unsupported); ok {
				res.Unsupported = u.msg
				res.Obls = nil
				return
			}
			panic(r)
		}
	}()
	st := vc.initState()
	vc.oldState = st
	sc := &specCtx{vc: vc, st: st, old: st, vars: map[string]Val{}, bound: map[string]*Term{}, pkg: eng.typesPkg(lm.PkgPath)}
	for _, p := range lm.Params {
		s, t := sc.quantSort(p.Type)
		n := vc.fresh("l_" + p.Name)
		vc.declare(n, s)
		tm := &Term{n, s, t}
		vc.assume(vc.typingFact(tm))
		vc.assume(vc.typeInvFact(sc, tm))
		if s == SStr && !vc.absStr && vc.mode != "bv" {
			// the contents of a string are bytes (code gets this fact with every read)
			vc.assume("(forall ((i Int)) (! (and (<= 0 (select (str-arr " + n + ") i)) (<= (select (str-arr " + n + ") i) 255)) :pattern ((select (str-arr " + n + ") i))))")
		}
		sc.vars[p.Name] = tm
	}
	sc.lemma = true
	goal := sc.evalBool(lm.Body)
	o := vc.oblige(st, "lemma."+lm.Name, goal, "lemma: "+lm.Src, 0, lm.Top)
	if o != nil {
		o.Name = pkgName + "#lemma." + lm.Name
	}
	res.Obls = vc.obls
	res.Prelude = vc.prelude()
	res.Cmds = vc.cmds
	res.Trusted = keys(vc.trusted)
	res.Used = keys(vc.usedContracts)
	res.Notes = vc.notes
	return
}

// callInSpec lets a lemma mention a real function: the call is replaced by a
// fresh result constrained by the function's contract (requires become
// obligations of the lemma's hypothesis side: they are conjoined as guards).
func (sc *specCtx) callInSpec(name string, args []Val) (Val, bool) {
	vc := sc.vc
	if !sc.lemma || sc.pkg == nil {
		return nil, false
	}
	var c *Contract
	for k, cc := range vc.eng.cs.Funcs {
		if cc.PkgPath == sc.pkg.Path() && (cc.Key == name || strings.HasSuffix(k, ")."+name)) {
			c = cc
			break
		}
	}
	if c == nil || c.Inline {
		return nil, false
	}
	fn := vc.eng.findFunc(c)
	if fn == nil {
		return nil, false
	}
	for _, a := range args {
		if t, ok := a.(*Term); ok && strings.Contains(t.S, "?") {
			unsup("lemma: call of %s with a bound variable argument", name)
		}
	}
	if len(c.Modifies) > 0 {
		unsup("lemma: %s modifies state", name)
	}
	if c.Assumed {
		vc.trusted[fn.String()+" (assumed contract)"] = true
	} else {
		vc.usedContracts[fn.String()] = true
	}
	n := &specCtx{vc: vc, st: sc.st, old: sc.st, vars: map[string]Val{}, bound: map[string]*Term{}, pkg: sc.pkg, fn: fn}
	// coerce literal arguments to parameter types
	sig := fn.Signature
	var cargs []Val
	for i, a := range args {
		if t, ok := a.(*Term); ok && i < sig.Params().Len() {
			pt := sig.Params().At(i).Type()
			if t.Sort == litSort {
				t2 := sc.solo(t)
				if vc.mode == "bv" && isIntType(pt) {
					bits, _ := intInfo(pt)
					nn, _ := newBig().SetString(t.S, 10)
					t2 = &Term{vc.bigLit(nn, bits), vc.intSort(bits), pt}
				}
				t = t2
			}
			a = &Term{t.S, t.Sort, pt}
		}
		cargs = append(cargs, a)
	}
	bindCall(n, fn, c, cargs)
	var pre []string
	for _, r := range c.Requires {
		pre = append(pre, n.evalBool(r.Expr))
	}
	if c.PanicsIf != nil {
		pre = append(pre, not(n.evalBool(c.PanicsIf.Expr)))
	}
	f := &frame{vc: vc, fn: fn, c: c}
	res := f.freshResult(fn.Signature, "r_"+sanitize(name))
	bindResults(n, c, res)
	guard := and(pre...)
	for _, e := range c.Ensures {
		vc.assume(implies(guard, n.evalBool(e.Expr)))
	}
	if t, ok := res.(*Term); ok {
		vc.assume(implies(guard, vc.typeInvFact(n, t)))
	}
	_ = types.Typ
	if tv, ok := res.(Tuple); ok {
		return &NamedTuple{Vals: tv, Names: c.Results}, true
	}
	return res, true
}

// NamedTuple is the multi-result of a contracted function mentioned in a
// lemma; components are selected by the contract's result names.
type NamedTuple struct {
	Vals  Tuple
	Names []string
}
